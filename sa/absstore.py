"""Abstract interpretation of the packet store class over a finite domain of store shapes.

The store is a dict of dicts of queues.  For ONE distinguished pair (remote id a0, local id a1) the abstract state records
whether a1 is an outer key, whether a0 is a key of that inner dict, whether that inner dict has other keys, whether the
queue is empty, and the sequence of operations performed (queue created / removed, inner dict created / removed, items
enqueued / dequeued).  Everything else in the store is summarised by "other keys exist / do not exist / unknown".
Iteration over a dict is interpreted with one representative element (universally quantified: whatever the body does for
the representative it does for every element).  Unknown predicates (is the queue empty, is cmd == CLSE, is a parameter
None, does a representative key equal a parameter) split the state; the domain is finite, there is no solver and nothing
is executed.  Constructs outside the interpreted subset raise AbsError (the caller reports an analysis error, exit 2).

`Interp(ctx, cls).run(method, initial-state)` returns the final abstract states; sa/rules/c19.py compares them with the
specification of each operation.
"""
import ast
from .terms import crepr
import copy

from .dataflow import unawait


class AbsError(Exception):
    pass


NONE = ("C", None)


def P(name):
    return ("P", name)


def new_q(ident="orig", present=True, empty=None):
    return {"present": present, "ident": ident, "empty": empty, "ops": []}


def new_inner(ident="orig", present=True, rest=None):
    return {"present": present, "ident": ident, "entries": {}, "rest": rest}


class State(object):
    def __init__(self):
        self.outer = {}           # key term -> inner
        self.outer_rest = None    # other outer keys exist?
        self.reset = False        # self._dict rebound to a fresh empty dict
        self.flags = {}           # atom -> bool (decided unknown predicates, in decision order)
        self.loc = {}             # local name -> value
        self.effects = []         # heap effects in order
        self.nalloc = 0
        self.nrep = 0
        self.forall = []          # (rep description, [flag snapshots of exit paths]) for loops finished without exit

    def fork(self):
        return copy.deepcopy(self)

    def decide(self, atom, value):
        self.flags[atom] = value


class Out(object):
    def __init__(self, kind, st, val=None):
        self.kind, self.st, self.val = kind, st, val      # kind: fall / return / raise / break / continue / yield


def is_dictval(v):
    return v[0] in ("D", "I", "NEWI")


class Interp(object):
    def __init__(self, ctx, cls, fold_mod=None, opaque_methods=()):
        self.ctx = ctx
        self.cls = cls
        self.mod = cls.mod
        self.opaque = set(opaque_methods)      # methods summarised as an uninterpreted result (e.g. find inside find_allow_zeros)
        self.depth = 0

    # ---------------------------------------------------------------------------------------------------------------------
    def run(self, mname, st, args):
        """Interpret method `mname` with parameter values `args` (dict) from state st -> [Out] (return / raise)."""
        f = self.cls.methods.get(mname)
        if f is None:
            raise AbsError("method %s not found" % mname)
        if self.depth > 5:
            raise AbsError("call depth")
        self.depth += 1
        try:
            saved = st.loc
            st = st.fork()
            st.loc = dict(args)
            st.loc["__self__"] = f.params[0] if f.params else "self"
            body = list(f.node.body)
            outs = self.block(body, st, f)
            res = []
            for o in outs:
                if o.kind == "fall":
                    o = Out("return", o.st, NONE)
                if o.kind in ("break", "continue"):
                    raise AbsError("break/continue outside a loop")
                o.st.loc = dict(saved)
                res.append(o)
            return res
        finally:
            self.depth -= 1

    # ---------------------------------------------------------------------------------------------------------------------
    # statements
    def block(self, stmts, st, f, on_yield=None):
        outs = [Out("fall", st)]
        for s in stmts:
            nxt = []
            for o in outs:
                if o.kind != "fall":
                    nxt.append(o)
                    continue
                nxt.extend(self.stmt(s, o.st, f, on_yield))
            outs = nxt
            if len(outs) > 400:
                raise AbsError("state explosion")
        return outs

    def stmt(self, s, st, f, on_yield):
        if isinstance(s, ast.Expr):
            if isinstance(s.value, ast.Constant):
                return [Out("fall", st)]
            if isinstance(s.value, (ast.Yield,)):
                if on_yield is None:
                    raise AbsError("yield outside an interpreted generator")
                res = []
                for st2, v in self.ev(s.value.value, st, f) if s.value.value is not None else [(st, NONE)]:
                    for o in on_yield(st2, v):
                        # the consumer's "fall" means: resume the generator
                        res.append(o)
                return res
            c0 = unawait(s.value)
            if isinstance(c0, ast.Call):
                r0 = c0.func
                while isinstance(r0, ast.Attribute):
                    r0 = r0.value
                if isinstance(r0, ast.Name) and r0.id in ("_LOGGER", "logging", "logger", "_LOG", "warnings"):
                    return [Out("fall", st)]          # logging has no effect on the store
            return [Out("fall", st2) if not isinstance(v, tuple) or v[0] != "RAISE" else Out("raise", st2, v) for st2, v in self.ev(s.value, st, f)]
        if isinstance(s, ast.Pass):
            return [Out("fall", st)]
        if isinstance(s, ast.Return):
            if s.value is None:
                return [Out("return", st, NONE)]
            return [Out("raise", st2, v) if v[0] == "RAISE" else Out("return", st2, v) for st2, v in self.ev(s.value, st, f)]
        if isinstance(s, ast.Break):
            return [Out("break", st)]
        if isinstance(s, ast.Continue):
            return [Out("continue", st)]
        if isinstance(s, ast.Raise):
            return [Out("raise", st, ("RAISE", "explicit"))]
        if isinstance(s, ast.If):
            res = []
            for st2, b in self.truth(s.test, st, f):
                if b == "RAISE":
                    res.append(Out("raise", st2, ("RAISE", "test")))
                else:
                    res.extend(self.block(s.body if b else s.orelse, st2, f, on_yield))
            return res
        if isinstance(s, ast.Assign):
            res = []
            for st2, v in self.ev(s.value, st, f):
                if v[0] == "RAISE":
                    res.append(Out("raise", st2, v))
                    continue
                cur = [st2]
                for t in s.targets:
                    nxt = []
                    for st3 in cur:
                        nxt.extend(self.assign(t, v, st3, f))
                    cur = nxt
                res.extend(Out("fall", x) if not isinstance(x, Out) else x for x in cur)
            return res
        if isinstance(s, ast.AugAssign):
            if isinstance(s.target, ast.Name) and isinstance(s.op, ast.Add):
                res = []
                for st2, v in self.ev(s.value, st, f):
                    old = st2.loc.get(s.target.id, ("OPAQUE", "?"))
                    st2.loc[s.target.id] = ("SUM", old, v)
                    res.append(Out("fall", st2))
                return res
            raise AbsError("augmented assignment `%s`" % ast.unparse(s))
        if isinstance(s, ast.Delete):
            cur = [st]
            for t in s.targets:
                nxt = []
                for st2 in cur:
                    if isinstance(st2, Out):
                        nxt.append(st2)
                        continue
                    nxt.extend(self.delete(t, st2, f))
                cur = nxt
            return [x if isinstance(x, Out) else Out("fall", x) for x in cur]
        if isinstance(s, (ast.For, ast.AsyncFor)):
            if s.orelse:
                raise AbsError("for-else")
            res = []
            for st2, it in self.ev(s.iter, st, f):
                def consumer(st3, elem, _s=s):
                    outs = []
                    for st4 in self.assign(_s.target, elem, st3, f):
                        if isinstance(st4, Out):
                            outs.append(st4)
                        else:
                            outs.extend(self.block(_s.body, st4, f, on_yield))
                    return outs
                for o in self.iterate(it, st2, f, consumer):
                    res.append(o)
            return res
        if isinstance(s, ast.Assert):
            return [Out("fall", st)]
        if isinstance(s, ast.Try) and not s.finalbody:
            # EAFP on the store's dicts: the only exception the interpreter models is the KeyError of a subscript / del on a missing key.
            # A handler decides such a path when it names KeyError (or a base class of it); any other raise that meets a handler which
            # might catch it is outside the subset.
            def names(h):
                if h.type is None:
                    return None
                ts = h.type.elts if isinstance(h.type, ast.Tuple) else [h.type]
                out = []
                for t in ts:
                    out.append(t.attr if isinstance(t, ast.Attribute) else (t.id if isinstance(t, ast.Name) else "?"))
                return out
            res = []
            for o in self.block(s.body, st, f, on_yield):
                if o.kind == "raise":
                    kind = o.val[1] if isinstance(o.val, tuple) and len(o.val) > 1 else "?"
                    hit = None
                    for h in s.handlers:
                        ns = names(h)
                        if kind == "KeyError":
                            if ns is None or any(n in ("KeyError", "LookupError", "Exception", "BaseException") for n in ns):
                                hit = h
                                break
                            if "?" in ns:
                                raise AbsError("handler class `%s`" % ast.unparse(h.type))
                        else:
                            raise AbsError("a handler meets a raise whose class is not modelled (%s)" % kind)
                    if hit is None:
                        res.append(o)
                        continue
                    if hit.name is not None and any(isinstance(n, ast.Name) and n.id == hit.name for b in hit.body for n in ast.walk(b)):
                        raise AbsError("handler uses the exception object")
                    res.extend(self.block(hit.body, o.st, f, on_yield))
                elif o.kind == "fall" and s.orelse:
                    res.extend(self.block(s.orelse, o.st, f, on_yield))
                else:
                    res.append(o)
            return res
        raise AbsError("statement `%s`" % type(s).__name__)

    # ---------------------------------------------------------------------------------------------------------------------
    # iteration
    def iterate(self, it, st, f, consumer):
        """Run `consumer(state, element) -> [Out]` over the elements of the abstract iterable `it`.
        Consumer kinds: fall/continue = next element; break = leave the loop; return/raise propagate."""
        if it[0] in ("T", "L"):
            outs = [Out("fall", st)]
            for elem in it[1:]:
                nxt = []
                for o in outs:
                    if o.kind != "fall":
                        nxt.append(o)
                        continue
                    for o2 in consumer(o.st, elem):
                        if o2.kind in ("fall", "continue"):
                            nxt.append(Out("fall", o2.st))
                        else:
                            nxt.append(o2)
                outs = nxt
            return [Out("fall", o.st) if o.kind == "break" else o for o in outs]
        if it[0] == "STREAM":
            _, src, mode = it
            return self._iter_rep(src, mode, st, f, consumer)
        if it[0] == "GEN":
            _, node, env = it
            return self._iter_gen(node, 0, env, st, f, consumer)
        if it[0] == "GENCALL":
            _, mname, args = it
            return self._iter_gencall(mname, args, st, f, consumer)
        if is_dictval(it):
            return self._iter_rep(it, "keys", st, f, consumer)
        raise AbsError("iteration over %s" % (it[0],))

    def _rep_elem(self, src, mode, st):
        """A representative element of dict `src`: fresh key, present value."""
        st.nrep += 1
        if src[0] == "D":
            k = ("K", 1, st.nrep)
            inner = new_inner(present=True, rest=None)
            st.outer[k] = inner
            val = ("I", k)
        elif src[0] == "I":
            k = ("K", 0, st.nrep)
            inner = self._inner(st, src[1])
            inner["entries"][k] = new_q(present=True, empty=None)
            val = ("Q", src[1], k)
        else:
            raise AbsError("iteration over a fresh dict")
        if mode == "items":
            return ("T", k, val), (src, k)
        if mode == "values":
            return val, (src, k)
        return k, (src, k)

    def _iter_rep(self, src, mode, st, f, consumer):
        base = st
        rep_st = st.fork()
        elem, rep = self._rep_elem(src, mode, rep_st)
        nflags = len(base.flags)
        outs = consumer(rep_st, elem)
        res = []
        exit_conds = []
        cont_locals = []
        for o in outs:
            if o.kind in ("return", "raise", "break", "genexit"):
                delta = [(a, v) for a, v in list(o.st.flags.items())[nflags:]]
                exit_conds.append(delta)
                o.st.forall.append(("exists", rep, delta))
                res.append(Out("fall", o.st) if o.kind == "break" else o)
            else:
                if o.st.effects != base.effects:
                    raise AbsError("a loop body modifies the store for elements that do not end the loop")
                delta = [(a, v) for a, v in list(o.st.flags.items())[nflags:]]
                cont_locals.append((delta, {k: v for k, v in o.st.loc.items() if base.loc.get(k) != v and not k.startswith("__")}))
        done = base.fork()
        done.forall.append(("none", rep, exit_conds))
        # locals accumulated over all elements (counters)
        changed = set()
        for _d, lc in cont_locals:
            changed |= set(lc)
        for name in changed:
            done.loc[name] = ("AGG", rep, base.loc.get(name), tuple((tuple(d), lc.get(name, base.loc.get(name))) for d, lc in cont_locals))
        res.append(Out("fall", done))
        return res

    def _iter_gen(self, node, gi, env, st, f, consumer):
        """Generator expression: nested `for target in iter if conds` then the element expression."""
        if gi == len(node.generators):
            st2 = st
            saved = dict(st2.loc)
            st2.loc = dict(st2.loc)
            st2.loc.update(env)
            res = []
            for st3, v in self.ev(node.elt, st2, f):
                env_out = {k: st3.loc[k] for k in env}
                st3.loc = {k: v2 for k, v2 in saved.items()}
                st3.loc.update({})
                for o in consumer(st3, v):
                    res.append(o)
                del env_out
            return res
        gen = node.generators[gi]
        saved = dict(st.loc)
        st = st.fork()
        st.loc = dict(st.loc)
        st.loc.update(env)
        res = []
        for st2, it in self.ev(gen.iter, st, f):
            st2.loc = dict(saved)

            def inner_consumer(st3, elem, _gen=gen, _env=env):
                outs = []
                loc0 = dict(st3.loc)
                st3.loc = dict(st3.loc)
                st3.loc.update(_env)
                for st4 in self.assign(_gen.target, elem, st3, f):
                    if isinstance(st4, Out):
                        outs.append(st4)
                        continue
                    env2 = dict(_env)
                    for n in ast.walk(_gen.target):
                        if isinstance(n, ast.Name):
                            env2[n.id] = st4.loc[n.id]
                    cur = [(st4, True)]
                    for c in _gen.ifs:
                        nxt = []
                        for st5, okc in cur:
                            if not okc:
                                nxt.append((st5, False))
                                continue
                            for st6, b in self.truth(c, st5, f):
                                nxt.append((st6, bool(b) and b != "RAISE"))
                        cur = nxt
                    for st5, okc in cur:
                        st5.loc = dict(loc0)
                        if not okc:
                            outs.append(Out("fall", st5))
                        else:
                            outs.extend(self._iter_gen(node, gi + 1, env2, st5, f, consumer))
                return outs
            res.extend(self.iterate(it, st2, f, inner_consumer))
        return res

    def _iter_gencall(self, mname, args, st, f, consumer):
        """Iterate a generator method of the class: its body is interpreted and every `yield v` hands v to the consumer.  The
        caller's locals travel inside the generator's frame under a prefix, so what the consumer does to them (counters)
        survives from one element to the next."""
        m = self.cls.methods.get(mname)
        if m is None:
            raise AbsError("generator %s" % mname)
        PFX = "$c$"
        st = st.fork()
        frame = dict(args)
        frame["__self__"] = m.params[0]
        for k, v in st.loc.items():
            frame[PFX + k] = v
        st.loc = frame

        def split(loc):
            caller = {k[len(PFX):]: v for k, v in loc.items() if k.startswith(PFX)}
            gen = {k: v for k, v in loc.items() if not k.startswith(PFX)}
            return caller, gen

        def on_yield(st2, v):
            caller, gen = split(st2.loc)
            st2.loc = caller
            outs = []
            for o in consumer(st2, v):
                if o.kind in ("fall", "continue"):
                    merged = dict(gen)
                    for k, vv in o.st.loc.items():
                        merged[PFX + k] = vv
                    o.st.loc = merged
                    outs.append(Out("fall", o.st))
                else:
                    outs.append(Out("genexit", o.st, o))
            return outs
        res = []
        for o in self.block(list(m.node.body), st, m, on_yield):
            if o.kind == "genexit":
                res.append(o.val)
            elif o.kind in ("fall", "return"):
                caller, _gen = split(o.st.loc)
                o.st.loc = caller
                res.append(Out("fall", o.st))
            else:
                res.append(o)
        return res

    # ---------------------------------------------------------------------------------------------------------------------
    # heap helpers
    def _inner(self, st, k1, create_unknown=True):
        if k1 not in st.outer:
            st.outer[k1] = new_inner(present=None, rest=None)
        return st.outer[k1]

    def _queue(self, st, k1, k0):
        inner = self._inner(st, k1)
        if k0 not in inner["entries"]:
            # an inner dict that this very call created (and no entry of which was linked since) has no keys at all
            fresh = isinstance(inner.get("ident"), tuple) and inner["ident"][:1] == ("new",) and inner.get("rest") is False
            inner["entries"][k0] = new_q(present=False if fresh else None, empty=None)
        return inner["entries"][k0]

    def _present_inner(self, st, k1):
        """-> [(state, bool)]: is k1 an outer key?"""
        if st.reset and k1 not in st.outer:
            return [(st, False)]
        inner = self._inner(st, k1)
        if inner["present"] is None:
            a, b = st.fork(), st.fork()
            a.outer[k1]["present"] = True
            a.decide(("outer-has", k1), True)
            b.outer[k1]["present"] = False
            b.decide(("outer-has", k1), False)
            return [(a, True), (b, False)]
        return [(st, inner["present"])]

    def _present_queue(self, st, k1, k0):
        inner = self._inner(st, k1)
        q = self._queue(st, k1, k0)
        if q["present"] is None:
            a, b = st.fork(), st.fork()
            a.outer[k1]["entries"][k0]["present"] = True
            a.decide(("inner-has", k1, k0), True)
            b.outer[k1]["entries"][k0]["present"] = False
            b.decide(("inner-has", k1, k0), False)
            return [(a, True), (b, False)]
        return [(st, q["present"])]

    def _dict_empty(self, st, v):
        """-> [(state, is_empty)]"""
        if v[0] == "D":
            if any(i["present"] for i in st.outer.values() if i["present"]):
                return [(st, False)]
            unknown = [k for k, i in st.outer.items() if i["present"] is None]
            if unknown:
                res = []
                for st2, b in self._present_inner(st, unknown[0]):
                    res.extend(self._dict_empty(st2, v))
                return res
            if st.reset:
                return [(st, True)]
            if st.outer_rest is None:
                a, b = st.fork(), st.fork()
                a.outer_rest = True
                a.decide(("outer-rest",), True)
                b.outer_rest = False
                b.decide(("outer-rest",), False)
                return [(a, False), (b, True)]
            return [(st, not st.outer_rest)]
        if v[0] == "I":
            inner = self._inner(st, v[1])
            if any(q["present"] for q in inner["entries"].values() if q["present"]):
                return [(st, False)]
            unknown = [k for k, q in inner["entries"].items() if q["present"] is None]
            if unknown:
                res = []
                for st2, b in self._present_queue(st, v[1], unknown[0]):
                    res.extend(self._dict_empty(st2, v))
                return res
            if inner["ident"] != "orig":
                return [(st, True)]
            if inner["rest"] is None:
                a, b = st.fork(), st.fork()
                a.outer[v[1]]["rest"] = True
                a.decide(("inner-rest", v[1]), True)
                b.outer[v[1]]["rest"] = False
                b.decide(("inner-rest", v[1]), False)
                return [(a, False), (b, True)]
            return [(st, not inner["rest"])]
        if v[0] == "NEWI":
            return [(st, len(v[1]) == 0)]
        raise AbsError("emptiness of %s" % (v[0],))

    # ---------------------------------------------------------------------------------------------------------------------
    # assignment / deletion
    def assign(self, t, v, st, f):
        """-> [State | Out]"""
        if isinstance(t, ast.Name):
            st.loc[t.id] = v
            return [st]
        if isinstance(t, (ast.Tuple, ast.List)):
            if v[0] in ("T", "L") and len(v) - 1 == len(t.elts):
                cur = [st]
                for tt, vv in zip(t.elts, v[1:]):
                    nxt = []
                    for s2 in cur:
                        if isinstance(s2, Out):
                            nxt.append(s2)
                        else:
                            nxt.extend(self.assign(tt, vv, s2, f))
                    cur = nxt
                return cur
            if v[0] in ("DEQ", "FINDRES", "OPAQUE", "P"):
                cur = [st]
                for i, tt in enumerate(t.elts):
                    nxt = []
                    for s2 in cur:
                        nxt.extend(self.assign(tt, ("PROJ", v, i), s2, f) if not isinstance(s2, Out) else [s2])
                    cur = nxt
                return cur
            if v == NONE:
                return [Out("raise", st, ("RAISE", "unpack None"))]
            raise AbsError("unpacking %s" % (v[0],))
        if isinstance(t, ast.Subscript):
            res = []
            for st2, base in self.ev(t.value, st, f):
                for st3, k in self.ev(t.slice, st2, f):
                    if base[0] == "D":
                        if v[0] == "NEWI":
                            inner = new_inner(ident=("new", v[2]), present=True, rest=False)
                            for k0, qv in v[1]:
                                if qv[0] != "NEWQ":
                                    raise AbsError("inner dict display with a non-fresh queue")
                                inner["entries"][k0] = new_q(ident=("new", qv[1]), present=True, empty=True)
                            st3.outer[k] = inner
                            st3.effects.append(("set-inner", k, tuple(k0 for k0, _ in v[1])))
                            for nm, lv in list(st3.loc.items()):
                                if lv == v:
                                    st3.loc[nm] = ("I", k)          # a local that holds the dict just linked now denotes the store's entry
                                for k0, qv in v[1]:
                                    if lv == qv:
                                        st3.loc[nm] = ("Q", k, k0)
                        else:
                            raise AbsError("outer slot assigned %s" % (v[0],))
                    elif base[0] == "I":
                        if v[0] != "NEWQ":
                            raise AbsError("inner slot assigned %s" % (v[0],))
                        inner = self._inner(st3, base[1])
                        inner["entries"][k] = new_q(ident=("new", v[1]), present=True, empty=True)
                        st3.effects.append(("set-queue", base[1], k))
                        for nm, lv in list(st3.loc.items()):
                            if lv == v:
                                st3.loc[nm] = ("Q", base[1], k)
                    elif base[0] == "NEWI":
                        raise AbsError("store into a fresh dict before it is linked")
                    else:
                        raise AbsError("subscript store on %s" % (base[0],))
                    res.append(st3)
            return res
        if isinstance(t, ast.Attribute) and isinstance(t.value, ast.Name) and t.value.id == st.loc.get("__self__") and t.attr == "_dict":
            if v[0] == "NEWI" and not v[1]:
                st.reset = True
                st.outer = {}
                st.outer_rest = False
                st.effects.append(("reset",))
                return [st]
            raise AbsError("self._dict assigned %s" % (v[0],))
        raise AbsError("assignment target `%s`" % ast.unparse(t))

    def delete(self, t, st, f):
        if not isinstance(t, ast.Subscript):
            raise AbsError("del of `%s`" % ast.unparse(t))
        res = []
        for st2, base in self.ev(t.value, st, f):
            if base[0] == "RAISE":
                res.append(Out("raise", st2, base))      # `del d[a][b]` with `a` missing: the look-up of d[a] raises
                continue
            for st3, k in self.ev(t.slice, st2, f):
                if base[0] == "D":
                    for st4, pres in self._present_inner(st3, k):
                        if not pres:
                            res.append(Out("raise", st4, ("RAISE", "KeyError")))
                        else:
                            st4.outer[k]["present"] = False
                            st4.effects.append(("del-inner", k))
                            res.append(st4)
                elif base[0] == "I":
                    for st4, pres in self._present_queue(st3, base[1], k):
                        if not pres:
                            res.append(Out("raise", st4, ("RAISE", "KeyError")))
                        else:
                            st4.outer[base[1]]["entries"][k]["present"] = False
                            st4.effects.append(("del-queue", base[1], k))
                            res.append(st4)
                else:
                    raise AbsError("del on %s" % (base[0],))
        return res

    # ---------------------------------------------------------------------------------------------------------------------
    # expressions
    def truth(self, e, st, f):
        """-> [(state, True/False/"RAISE")]"""
        e = unawait(e)
        if isinstance(e, ast.UnaryOp) and isinstance(e.op, ast.Not):
            return [(s2, b if b == "RAISE" else (not b)) for s2, b in self.truth(e.operand, st, f)]
        if isinstance(e, ast.BoolOp):
            is_and = isinstance(e.op, ast.And)
            cur = [(st, None)]
            for v in e.values:
                nxt = []
                for s2, dec in cur:
                    if dec is not None:
                        nxt.append((s2, dec))
                        continue
                    for s3, b in self.truth(v, s2, f):
                        if b == "RAISE":
                            nxt.append((s3, "RAISE"))
                        elif b != is_and:
                            nxt.append((s3, b))       # short-circuit
                        else:
                            nxt.append((s3, None))
                cur = nxt
            return [(s2, is_and if dec is None else dec) for s2, dec in cur]
        res = []
        for s2, v in self.ev(e, st, f):
            res.extend(self.truthy(v, s2))
        return res

    def truthy(self, v, st):
        k = v[0]
        if k == "RAISE":
            return [(st, "RAISE")]
        if k == "B":
            return [(st, v[1])]
        if k == "C":
            return [(st, bool(v[1]))]
        if k in ("T", "L"):
            return [(st, len(v) > 1)]
        if k in ("D", "I", "NEWI"):
            return [(s2, not emp) for s2, emp in self._dict_empty(st, v)]
        if k in ("Q", "NEWQ"):
            return [(st, True)]
        if k == "FINDRES":
            atom = ("findres-truthy", v[1])
            if atom in st.flags:
                return [(st, st.flags[atom])]
            a, b = st.fork(), st.fork()
            a.decide(atom, True)
            b.decide(atom, False)
            return [(a, True), (b, False)]
        if k in ("P", "PROJ", "DEQ", "OPAQUE", "K"):
            # (a key of the store is an id: 0 is a legitimate id - the legacy zero ids - so a key is not known to be truthy)
            atom = ("truthy", v)
            if atom in st.flags:
                return [(st, st.flags[atom])]
            if ("is-none", v) in st.flags and st.flags[("is-none", v)]:
                return [(st, False)]
            a, b = st.fork(), st.fork()
            a.decide(atom, True)
            b.decide(atom, False)
            return [(a, True), (b, False)]
        raise AbsError("truth value of %s" % (k,))

    def ev(self, e, st, f):
        """-> [(state, value)]; value ("RAISE", why) when evaluation raises."""
        e = unawait(e)
        if isinstance(e, ast.Constant):
            return [(st, ("C", e.value))]
        if isinstance(e, ast.Name):
            if e.id in st.loc:
                return [(st, st.loc[e.id])]
            if e.id == st.loc.get("__self__"):
                return [(st, ("SELF",))]
            ok, v = self.ctx.fold.try_eval(e, self.mod, {})
            if ok:
                return [(st, ("C", v))]
            if e.id in ("None",):
                return [(st, NONE)]
            raise AbsError("unbound name %s" % e.id)
        if isinstance(e, ast.Attribute):
            if isinstance(e.value, ast.Name) and e.value.id == st.loc.get("__self__") and e.attr == "_dict":
                return [(st, ("D",))]
            ok, v = self.ctx.fold.try_eval(e, self.mod, {})
            if ok:
                return [(st, ("C", v))]
            raise AbsError("attribute `%s`" % ast.unparse(e))
        if isinstance(e, (ast.Tuple, ast.List)):
            cur = [(st, ())]
            for x in e.elts:
                nxt = []
                for s2, acc in cur:
                    for s3, v in self.ev(x, s2, f):
                        if v[0] == "RAISE":
                            return [(s3, v)]
                        nxt.append((s3, acc + (v,)))
                cur = nxt
            tag = "T" if isinstance(e, ast.Tuple) else "L"
            return [(s2, (tag,) + acc) for s2, acc in cur]
        if isinstance(e, ast.Dict):
            if not e.keys:
                st.nalloc += 1
                return [(st, ("NEWI", (), st.nalloc))]
            cur = [(st, ())]
            for kx, vx in zip(e.keys, e.values):
                nxt = []
                for s2, acc in cur:
                    for s3, kv in self.ev(kx, s2, f):
                        for s4, vv in self.ev(vx, s3, f):
                            nxt.append((s4, acc + ((kv, vv),)))
                cur = nxt
            res = []
            for s2, acc in cur:
                s2.nalloc += 1
                res.append((s2, ("NEWI", acc, s2.nalloc)))
            return res
        if isinstance(e, ast.Subscript):
            res = []
            for s2, base in self.ev(e.value, st, f):
                if base[0] == "RAISE":
                    res.append((s2, base))
                    continue
                for s3, k in self.ev(e.slice, s2, f):
                    res.extend(self.subscript(base, k, s3))
            return res
        if isinstance(e, ast.Compare) and len(e.ops) == 1:
            return self.compare(e, st, f)
        if isinstance(e, ast.UnaryOp) and isinstance(e.op, ast.Not):
            return [(s2, ("RAISE", "test") if b == "RAISE" else ("B", b)) for s2, b in self.truth(e, st, f)]
        if isinstance(e, ast.BoolOp):
            # value semantics: a or b -> a if truthy else b
            is_and = isinstance(e.op, ast.And)
            cur = [(st, None)]
            for i, x in enumerate(e.values):
                nxt = []
                last = i == len(e.values) - 1
                for s2, dec in cur:
                    if dec is not None:
                        nxt.append((s2, dec))
                        continue
                    for s3, v in self.ev(x, s2, f):
                        if last or v[0] == "RAISE":
                            nxt.append((s3, v))
                            continue
                        for s4, b in self.truthy(v, s3):
                            if b == "RAISE":
                                nxt.append((s4, ("RAISE", "test")))
                            elif b != is_and:
                                nxt.append((s4, v))
                            else:
                                nxt.append((s4, None))
                cur = nxt
            return cur
        if isinstance(e, ast.IfExp):
            res = []
            for s2, b in self.truth(e.test, st, f):
                if b == "RAISE":
                    res.append((s2, ("RAISE", "test")))
                else:
                    res.extend(self.ev(e.body if b else e.orelse, s2, f))
            return res
        if isinstance(e, ast.GeneratorExp) or isinstance(e, ast.ListComp):
            env = {}
            return [(st, ("GEN", e, env))]
        if isinstance(e, ast.Call):
            return self.call(e, st, f)
        if isinstance(e, ast.Starred):
            raise AbsError("starred expression")
        raise AbsError("expression `%s`" % type(e).__name__)

    def subscript(self, base, k, st):
        if base[0] == "D":
            res = []
            for s2, pres in self._present_inner(st, k):
                res.append((s2, ("I", k)) if pres else (s2, ("RAISE", "KeyError")))
            return res
        if base[0] == "I":
            res = []
            for s2, pres in self._present_queue(st, base[1], k):
                res.append((s2, ("Q", base[1], k)) if pres else (s2, ("RAISE", "KeyError")))
            return res
        if base[0] in ("T", "L") and k[0] == "C" and isinstance(k[1], int) and 0 <= k[1] < len(base) - 1:
            return [(st, base[1 + k[1]])]
        if base[0] in ("P", "PROJ", "FINDRES", "DEQ") and k[0] == "C" and isinstance(k[1], int):
            return [(st, ("PROJ", base, k[1]))]
        raise AbsError("subscript of %s" % (base[0],))

    def compare(self, e, st, f):
        op = e.ops[0]
        res = []
        for s2, a in self.ev(e.left, st, f):
            for s3, b in self.ev(e.comparators[0], s2, f):
                if a[0] == "RAISE" or b[0] == "RAISE":
                    res.append((s3, a if a[0] == "RAISE" else b))
                    continue
                if isinstance(op, (ast.In, ast.NotIn)):
                    neg = isinstance(op, ast.NotIn)
                    if b[0] == "D":
                        for s4, pres in self._present_inner(s3, a):
                            res.append((s4, ("B", pres != neg)))
                    elif b[0] == "I":
                        for s4, pres in self._present_queue(s3, b[1], a):
                            res.append((s4, ("B", pres != neg)))
                    elif b[0] == "SELF":
                        m = self.cls.methods.get("__contains__")
                        if m is None:
                            raise AbsError("`in self` without __contains__")
                        for o in self.run("__contains__", s3, {m.params[1]: a}):
                            if o.kind != "return":
                                res.append((o.st, ("RAISE", "callee")))
                                continue
                            for s4, t in self.truthy(o.val, o.st):
                                res.append((s4, ("RAISE", "test") if t == "RAISE" else ("B", t != neg)))
                    elif b[0] in ("T", "L") or (b[0] == "C" and isinstance(b[1], (tuple, list, frozenset, set))):
                        atom = ("in", a, b)
                        for s4, t in self._decide(s3, atom):
                            res.append((s4, ("B", t != neg)))
                    else:
                        raise AbsError("membership in %s" % (b[0],))
                elif isinstance(op, (ast.Is, ast.IsNot)):
                    neg = isinstance(op, ast.IsNot)
                    for s4, t in self._is(s3, a, b):
                        res.append((s4, ("B", t != neg)))
                elif isinstance(op, (ast.Eq, ast.NotEq)):
                    neg = isinstance(op, ast.NotEq)
                    for s4, t in self._eq(s3, a, b):
                        res.append((s4, ("B", t != neg)))
                elif a[0] == "OPAQUE" or b[0] == "OPAQUE":
                    for s4, t in self._decide(s3, ("cmp", type(op).__name__, a, b)):
                        res.append((s4, ("B", t)))
                else:
                    raise AbsError("comparison %s" % type(op).__name__)
        return res

    def _decide(self, st, atom):
        if atom in st.flags:
            return [(st, st.flags[atom])]
        a, b = st.fork(), st.fork()
        a.decide(atom, True)
        b.decide(atom, False)
        return [(a, True), (b, False)]

    def _is(self, st, a, b):
        if a == b:
            return [(st, True)]
        if b == NONE or a == NONE:
            x = a if b == NONE else b
            if x[0] == "C":
                return [(st, x[1] is None)]
            if x[0] in ("D", "I", "Q", "NEWI", "NEWQ", "T", "L", "B", "K"):
                return [(st, False)]
            if x[0] == "FINDRES":
                return [(s2, not t) for s2, t in self.truthy(x, st)]      # find returns None or a (truthy) pair
            return self._decide(st, ("is-none", x))
        return self._decide(st, ("is", a, b))

    def _eq(self, st, a, b):
        if a == b:
            return [(st, True)]
        if a[0] == "C" and b[0] == "C":
            return [(st, a[1] == b[1])]
        if a[0] == "C" or (b[0] != "C" and crepr(a) > crepr(b)):
            a, b = b, a
        return self._decide(st, ("eq", a, b))

    def call(self, e, st, f):
        fn = e.func
        if any(isinstance(a, ast.Starred) for a in e.args) or any(k.arg is None for k in e.keywords):
            # get(*pair)
            if len(e.args) == 1 and isinstance(e.args[0], ast.Starred) and not e.keywords:
                res = []
                for s2, v in self.ev(e.args[0].value, st, f):
                    if v[0] in ("T", "L"):
                        res.extend(self._call_with(e, list(v[1:]), {}, s2, f))
                    else:
                        res.extend(self._call_with(e, [("PROJ", v, 0), ("PROJ", v, 1)], {}, s2, f))
                return res
            raise AbsError("star arguments")
        cur = [(st, [])]
        for a in e.args:
            nxt = []
            for s2, acc in cur:
                for s3, v in self.ev(a, s2, f):
                    nxt.append((s3, acc + [v]))
            cur = nxt
        res = []
        for s2, args in cur:
            kws = {}
            states = [(s2, {})]
            for k in e.keywords:
                nxt = []
                for s3, kw in states:
                    for s4, v in self.ev(k.value, s3, f):
                        kw2 = dict(kw)
                        kw2[k.arg] = v
                        nxt.append((s4, kw2))
                states = nxt
            for s3, kw in states:
                if any(a[0] == "RAISE" for a in args):
                    res.append((s3, [a for a in args if a[0] == "RAISE"][0]))
                else:
                    res.extend(self._call_with(e, args, kw, s3, f))
        return res

    def _call_with(self, e, args, kw, st, f):
        fn = e.func
        if isinstance(fn, ast.Name):
            name = fn.id
            if name == "Queue":
                # (a bounded / non-FIFO queue class is judged by the FIFO rule; its construction is a fresh queue here)
                st.nalloc += 1
                return [(st, ("NEWQ", st.nalloc))]
            if name == "bool" and len(args) == 1:
                return [(s2, ("RAISE", "test") if b == "RAISE" else ("B", b)) for s2, b in self.truthy(args[0], st)]
            if name in ("list", "tuple", "iter") and len(args) == 1:
                return [(st, args[0])]
            if name == "next" and len(args) in (1, 2):
                default = args[1] if len(args) == 2 else ("RAISE", "StopIteration")

                def consumer(st2, elem):
                    return [Out("return", st2, elem)]
                res = []
                for o in self.iterate(args[0], st, f, consumer):
                    if o.kind == "return":
                        res.append((o.st, o.val))
                    elif o.kind == "fall":
                        res.append((o.st, default))
                    else:
                        res.append((o.st, o.val if o.val is not None else ("RAISE", "?")))
                return res
            if name == "sum" and len(args) == 1:
                st.loc["sum$acc"] = ("C", 0)

                def consumer2(st2, elem):
                    st2.loc["sum$acc"] = ("SUM", st2.loc["sum$acc"], elem)
                    return [Out("fall", st2)]
                res = []
                for o in self.iterate(args[0], st, f, consumer2):
                    v = o.st.loc.pop("sum$acc", ("C", 0))
                    res.append((o.st, v))
                return res
            if name == "len" and len(args) == 1 and args[0][0] in ("T", "L"):
                return [(st, ("C", len(args[0]) - 1))]
            if name == "dict" and not args and not kw:
                st.nalloc += 1
                return [(st, ("NEWI", (), st.nalloc))]
            raise AbsError("call of %s" % name)
        if isinstance(fn, ast.Attribute):
            # self.method(...)
            if isinstance(fn.value, ast.Name) and fn.value.id == st.loc.get("__self__"):
                m = self.cls.methods.get(fn.attr)
                if m is None:
                    raise AbsError("self.%s" % fn.attr)
                if fn.attr in self.opaque:
                    return [(st, ("FINDRES", tuple(args)))]
                ps = m.params[1:]
                b = dict(zip(ps, args))
                b.update(kw)
                for p in ps:
                    if p not in b:
                        if p in m.defaults:
                            okd, dv = self.ctx.fold.try_eval(m.defaults[p], self.mod, {})
                            if not okd:
                                raise AbsError("default of %s" % p)
                            b[p] = ("C", dv)
                        else:
                            raise AbsError("missing argument %s" % p)
                if m.is_generator:
                    return [(st, ("GENCALL", fn.attr, b))]
                res = []
                for o in self.run(fn.attr, st, b):
                    if o.kind == "return":
                        res.append((o.st, o.val))
                    else:
                        res.append((o.st, ("RAISE", "callee")))
                return res
            res = []
            for s2, recv in self.ev(fn.value, st, f):
                res.extend(self._method(recv, fn.attr, args, kw, s2))
            return res
        raise AbsError("call `%s`" % ast.unparse(e))

    def _method(self, recv, name, args, kw, st):
        k = recv[0]
        if k == "RAISE":
            return [(st, recv)]
        if k in ("D", "I"):
            if name in ("items", "values", "keys") and not args:
                return [(st, ("STREAM", recv, name))]
            if name == "get" and len(args) in (1, 2):
                default = args[1] if len(args) == 2 else NONE
                res = []
                for s2, v in self.subscript(recv, args[0], st):
                    res.append((s2, default if v[0] == "RAISE" else v))
                return res
            if name == "setdefault" and len(args) == 2:
                res = []
                for s2, v in self.subscript(recv, args[0], st):
                    if v[0] != "RAISE":
                        res.append((s2, v))
                        continue
                    # the key is absent: the default is linked under it (exactly what `d[k] = default` does) and returned
                    dflt, k = args[1], args[0]
                    if k == "D" and False:
                        pass
                    if recv[0] == "D":
                        if dflt[0] != "NEWI" or dflt[1]:
                            raise AbsError("setdefault on the outer dict with %s" % (dflt[0],))
                        s2.outer[args[0]] = new_inner(ident=("new", dflt[2]), present=True, rest=False)
                        s2.effects.append(("set-inner", args[0], ()))
                        res.append((s2, ("I", args[0])))
                    else:
                        if dflt[0] != "NEWQ":
                            raise AbsError("setdefault on an inner dict with %s" % (dflt[0],))
                        inner = self._inner(s2, recv[1])
                        inner["entries"][args[0]] = new_q(ident=("new", dflt[1]), present=True, empty=True)
                        s2.effects.append(("set-queue", recv[1], args[0]))
                        res.append((s2, ("Q", recv[1], args[0])))
                return res
            if name == "pop" and len(args) in (1, 2):
                raise AbsError("dict.pop")
            raise AbsError("dict method %s" % name)
        if k == "Q":
            q = self._queue(st, recv[1], recv[2])
            if name == "empty" and not args:
                eff_enq = any(op[0] == "enq" for op in q["ops"])
                if eff_enq:
                    return [(st, ("B", False))]
                if q["empty"] is None:
                    a, b = st.fork(), st.fork()
                    a.outer[recv[1]]["entries"][recv[2]]["empty"] = True
                    a.decide(("queue-empty", recv[1], recv[2]), True)
                    b.outer[recv[1]]["entries"][recv[2]]["empty"] = False
                    b.decide(("queue-empty", recv[1], recv[2]), False)
                    return [(a, ("B", True)), (b, ("B", False))]
                return [(st, ("B", q["empty"]))]
            if name == "put_nowait" and len(args) == 1:
                q["ops"].append(("enq", args[0]))
                st.effects.append(("enq", recv[1], recv[2], args[0]))
                return [(st, NONE)]
            if name == "get_nowait" and not args:
                ndeq = sum(1 for op in q["ops"] if op[0] == "deq")
                q["ops"].append(("deq",))
                st.effects.append(("deq", recv[1], recv[2]))
                return [(st, ("DEQ", recv[1], recv[2], ndeq))]
            if name in ("qsize", "full") and not args:
                return [(st, ("OPAQUE", "%s(%s,%s)" % (name, recv[1], recv[2])))]      # an unknown number / flag: tests on it split the state
            raise AbsError("queue method %s (only put_nowait / get_nowait / empty keep FIFO order without blocking)" % name)
        if k == "NEWQ":
            raise AbsError("operation on a fresh queue before it is linked")
        if k == "NEWI" and not recv[1]:
            # a fresh, empty dict (`self._dict.get(arg1, {})`)
            if name == "get" and len(args) in (1, 2):
                return [(st, args[1] if len(args) == 2 else NONE)]
            if name in ("items", "values", "keys") and not args:
                return [(st, ("T",))]
        raise AbsError("method %s on %s" % (name, k))


def initial_state(a0=P("arg0"), a1=P("arg1"), outer=None, inner=None, rest=None, empty=None):
    """State for the distinguished pair: outer: is a1 an outer key; inner: is a0 a key of that inner dict; rest: other inner
    keys; empty: is the queue empty (None = decided lazily)."""
    st = State()
    if outer is not None:
        i = new_inner(present=outer, rest=rest)
        st.outer[a1] = i
        if outer and inner is not None:
            i["entries"][a0] = new_q(present=inner, empty=empty if inner else None)
    return st
