"""E0.4 - name canonicalisation: map definitions that were merely RENAMED back to the names the rule tables know.

The rules anchor on names of the tree they were confirmed on (a method `_okay`, a lock attribute `_store_lock`, a parameter
`adb_info`).  A private name can be changed freely without changing behaviour, so before anything else looks at the
package, every scope (module, class) is compared with its confirmed shape (sa/known_shapes.py):

  * a canonical name that is MISSING from the scope and an UNKNOWN name that is present are paired when the unknown
    definition has the shape of the missing one (token similarity of parameters, calls, constants and attributes it
    mentions; message-kind constants must agree exactly), the pairing being unambiguous;
  * functions / methods / classes: the definition and every reference in the package are renamed;
  * instance attributes (assigned in `__init__`): paired by initialiser and by how they are used (as a lock around which
    calls, as receiver of which calls, in which methods), then renamed in the whole package;
  * parameters of a function whose parameter list has the confirmed length but other names are renamed positionally
    (keywords at the call sites too).

An unknown name that is also a known name elsewhere is never touched.  Nothing is renamed when the pairing is ambiguous:
the rules then report the missing anchor (exit 2), never a silent pass.  The mapping is recorded for the evidence."""
import ast

from .shapes import module_shape, func_features, attr_features, similarity


def _known_names(shapes):
    out = set()
    for m in shapes.values():
        out |= set(m["funcs"]) | set(m["classes"])
        for c in m["classes"].values():
            out |= set(c["methods"]) | set(a for a, _ in c["attrs"])
        for f in m["funcs"].values():
            out |= set(f["params"])
    return out


def _compatible(fa, fb):
    """Definitions that mention different protocol constants / exception classes play different roles."""
    ka = set(t for t in fa if t.startswith("k:"))
    kb = set(t for t in fb if t.startswith("k:"))
    if ka != kb and (ka or kb):
        # different protocol constants: different roles.  (A constant hoisted out of the function leaves one side without any;
        # that is tolerated only for an unchanged parameter list.)
        if ka and kb:
            return False
        pa = sorted(t for t in fa if t.startswith("p:") or t.startswith("np:"))
        pb = sorted(t for t in fb if t.startswith("p:") or t.startswith("np:"))
        if [t for t in pa if t.startswith("np:")] != [t for t in pb if t.startswith("np:")]:
            return False
    ga, gb = ("gen" in fa), ("gen" in fb)
    if ga != gb:
        return False
    return True


def _strip_names(feats, names):
    """Similarity is computed without the tokens that name the definitions being paired themselves."""
    drop = set("c:" + n for n in names) | set("a:" + n for n in names)
    return [t for t in feats if t not in drop]


def pair(missing, unknown, known_feats, cur_feats, lone_threshold=0.3, threshold=0.5, margin=0.12):
    """missing: canonical names absent; unknown: present names not canonical.  -> {unknown: canonical}"""
    out = {}
    missing, unknown = list(missing), list(unknown)
    names = set(missing) | set(unknown)
    scores = {}
    for m in missing:
        for u in unknown:
            fa, fb = _strip_names(known_feats[m], names), _strip_names(cur_feats[u], names)
            scores[(m, u)] = similarity(fa, fb) if _compatible(fa, fb) else 0.0
    while missing and unknown:
        best = max(((scores[(m, u)], m, u) for m in missing for u in unknown), key=lambda x: x[0])
        sc, m, u = best
        others = [scores[(m2, u2)] for m2 in missing for u2 in unknown if (m2 == m) != (u2 == u)]
        second = max(others) if others else 0.0
        need = lone_threshold if (len(missing) == 1 and len(unknown) == 1) else threshold
        if sc < need or (others and sc - second < margin):
            break
        out[u] = m
        missing.remove(m)
        unknown.remove(u)
    return out


class Renamer(object):
    def __init__(self, trees, shapes):
        self.trees = trees              # modname -> ast.Module (mutated in place)
        self.shapes = shapes
        self.known = _known_names(shapes)
        self.log = []                   # (kind, scope, old, new)

    # -- package-wide reference rewriting ------------------------------------------------------------------------------
    def _rename_attr_everywhere(self, old, new):
        for t in self.trees.values():
            for n in ast.walk(t):
                if isinstance(n, ast.Attribute) and n.attr == old:
                    n.attr = new

    def _rename_name_everywhere(self, old, new):
        for t in self.trees.values():
            for n in ast.walk(t):
                if isinstance(n, ast.Name) and n.id == old:
                    n.id = new
                elif isinstance(n, ast.ImportFrom):
                    for a in n.names:
                        if a.name == old:
                            a.name = new
                elif isinstance(n, ast.Attribute) and n.attr == old:
                    n.attr = new

    def _free(self, old):
        """`old` is not a name the tables know for something else."""
        return old not in self.known

    # -- scopes -------------------------------------------------------------------------------------------------------------
    def run(self):
        for modname in sorted(self.trees):
            if modname in self.shapes:
                self._module(modname)
        # classes now carry their confirmed names: a base class the tables do not know is folded into the known classes that derive from it
        from .canon import flatten_new_bases
        known_classes = set(c for m in self.shapes.values() for c in m["classes"])
        self.log.extend(flatten_new_bases(self.trees, known_classes))
        for modname in sorted(self.trees):
            if modname in self.shapes:
                for cls in [st for st in self.trees[modname].body if isinstance(st, ast.ClassDef)]:
                    if cls.name in self.shapes[modname]["classes"]:
                        self._methods(modname, cls)
        for modname in sorted(self.trees):
            if modname in self.shapes:
                for cls in [st for st in self.trees[modname].body if isinstance(st, ast.ClassDef)]:
                    if cls.name in self.shapes[modname]["classes"]:
                        self._attrs(modname, cls)
        for modname in sorted(self.trees):
            if modname in self.shapes:
                self._params(modname)
        return self.log

    def _module(self, modname):
        tree, sh = self.trees[modname], self.shapes[modname]
        cur = module_shape(tree)
        # functions
        missing = [n for n in sh["funcs"] if n not in cur["funcs"]]
        unknown = [n for n in cur["funcs"] if n not in sh["funcs"] and self._free(n)]
        if missing and unknown:
            m = pair(missing, unknown, {k: v["features"] for k, v in sh["funcs"].items()}, {k: v["features"] for k, v in cur["funcs"].items()})
            for old, new in sorted(m.items()):
                self._rename_name_everywhere(old, new)
                for st in tree.body:
                    if isinstance(st, (ast.FunctionDef, ast.AsyncFunctionDef)) and st.name == old:
                        st.name = new
                self.log.append(("function", modname, old, new))
        # classes: by the set of method names and bases
        missing = [n for n in sh["classes"] if n not in cur["classes"]]
        unknown = [n for n in cur["classes"] if n not in sh["classes"] and self._free(n)]
        if missing and unknown:
            kf = {k: ["m:" + x for x in v["methods"]] + ["b:" + b for b in v["bases"]] for k, v in sh["classes"].items()}
            cf = {k: ["m:" + x for x in v["methods"]] + ["b:" + b for b in v["bases"]] for k, v in cur["classes"].items()}
            m = pair(missing, unknown, kf, cf)
            for old, new in sorted(m.items()):
                self._rename_name_everywhere(old, new)
                for st in tree.body:
                    if isinstance(st, ast.ClassDef) and st.name == old:
                        st.name = new
                self.log.append(("class", modname, old, new))

    def _methods(self, modname, cls):
        sh = self.shapes[modname]["classes"][cls.name]
        cur = {}
        for m in cls.body:
            if isinstance(m, (ast.FunctionDef, ast.AsyncFunctionDef)) and m.name not in cur:
                cur[m.name] = func_features(m)[0]
        missing = [n for n in sh["methods"] if n not in cur]
        unknown = [n for n in cur if n not in sh["methods"] and self._free(n) and not (n.startswith("__") and n.endswith("__"))]
        if not (missing and unknown):
            return
        mp = pair(missing, unknown, {k: v["features"] for k, v in sh["methods"].items()}, cur)
        for old, new in sorted(mp.items()):
            for m in cls.body:
                if isinstance(m, (ast.FunctionDef, ast.AsyncFunctionDef)) and m.name == old:
                    m.name = new
            self._rename_attr_everywhere(old, new)
            self.log.append(("method", "%s.%s" % (modname, cls.name), old, new))

    def _attrs(self, modname, cls):
        from .shapes import class_shape
        sh = self.shapes[modname]["classes"][cls.name]
        cur = class_shape(cls)
        known_attrs = [a for a, _ in sh["attrs"]]
        cur_attrs = [a for a, _ in cur["attrs"]]
        defined = set(m.name for m in cls.body if isinstance(m, (ast.FunctionDef, ast.AsyncFunctionDef)))      # (a property of that name: the name is taken)
        missing = [a for a in known_attrs if a not in cur_attrs and a not in defined]
        unknown = [a for a in cur_attrs if a not in known_attrs and self._free(a)]
        if not (missing and unknown):
            return
        kinit, cinit = dict(sh["attrs"]), dict(cur["attrs"])
        kf = {a: list(sh["attr_features"].get(a, [])) + ["init:" + kinit[a]] for a in known_attrs}
        cf = {a: list(cur["attr_features"].get(a, [])) + ["init:" + cinit[a]] for a in cur_attrs}
        mp = pair(missing, unknown, kf, cf, lone_threshold=0.2, threshold=0.4, margin=0.08)
        # an attribute initialised with an object of a class of the package is that object, not another spelling of a number / flag / lock:
        # it pairs only with a known attribute initialised by the same constructor
        pkg_classes = set(c.name for t in self.trees.values() for c in ast.walk(t) if isinstance(c, ast.ClassDef))

        def ctor_name(dump):
            # ast.dump of the initialiser: Call(func=Name(id='K', ...
            import re as _re
            m_ = _re.match(r"Call\(func=Name\(id='([A-Za-z_0-9]+)'", dump or "")
            return m_.group(1) if m_ else None
        for u in list(mp):
            cu, ck = ctor_name(cinit.get(u)), ctor_name(kinit.get(mp[u]))
            if cu in pkg_classes and cu != ck:
                del mp[u]
        for old, new in sorted(mp.items()):
            self._rename_attr_everywhere(old, new)
            self.log.append(("attribute", "%s.%s" % (modname, cls.name), old, new))

    def _params(self, modname):
        tree, sh = self.trees[modname], self.shapes[modname]

        def fix(fn, want, scope):
            a = fn.args
            have = [x for x in a.posonlyargs + a.args + a.kwonlyargs]
            if len(have) != len(want) or [x.arg for x in have] == want:
                return
            used = set(n.id for n in ast.walk(fn) if isinstance(n, ast.Name)) | set(x.arg for x in have)
            ren = {}
            for x, w in zip(have, want):
                if x.arg != w:
                    if w in used:
                        return       # the canonical name is already used for something else in this function
                    ren[x.arg] = w
            if not ren:
                return
            for x in have:
                if x.arg in ren:
                    x.arg = ren[x.arg]
            for n in ast.walk(fn):
                if isinstance(n, ast.Name) and n.id in ren:
                    n.id = ren[n.id]
            # keywords at call sites of this function (by name)
            for t in self.trees.values():
                for c in ast.walk(t):
                    if isinstance(c, ast.Call):
                        nm = c.func.attr if isinstance(c.func, ast.Attribute) else c.func.id if isinstance(c.func, ast.Name) else None
                        if nm == fn.name:
                            for k in c.keywords:
                                if k.arg in ren:
                                    k.arg = ren[k.arg]
            for old, new in sorted(ren.items()):
                self.log.append(("parameter", scope, old, new))
        for st in tree.body:
            if isinstance(st, (ast.FunctionDef, ast.AsyncFunctionDef)) and st.name in sh["funcs"]:
                fix(st, sh["funcs"][st.name]["params"], "%s.%s" % (modname, st.name))
            elif isinstance(st, ast.ClassDef) and st.name in sh["classes"]:
                seen = set()
                for m in st.body:
                    if isinstance(m, (ast.FunctionDef, ast.AsyncFunctionDef)) and m.name in sh["classes"][st.name]["methods"] and m.name not in seen:
                        seen.add(m.name)
                        fix(m, sh["classes"][st.name]["methods"][m.name]["params"], "%s.%s.%s" % (modname, st.name, m.name))


def canonical_names(trees, shapes=None):
    if shapes is None:
        from .known_shapes import SHAPES as shapes
    return Renamer(trees, shapes).run()
