"""E1 - constant folder: an interpreter over the AST of module-level initialisers (nothing is imported or run).

Supports exactly what the package's constant tables use; anything else is TOP (raises Unfoldable).
Assumption recorded in evidence: Python 3 (``sys.version_info[0] == 3``).
"""
import ast
import stat as _stat
import struct as _struct

from .loader import AnalysisError


class Unfoldable(Exception):
    pass


_BINOPS = {
    ast.Add: lambda a, b: a + b, ast.Sub: lambda a, b: a - b, ast.Mult: lambda a, b: a * b,
    ast.FloorDiv: lambda a, b: a // b, ast.Mod: lambda a, b: a % b, ast.Pow: lambda a, b: a ** b,
    ast.LShift: lambda a, b: a << b, ast.RShift: lambda a, b: a >> b, ast.BitOr: lambda a, b: a | b,
    ast.BitAnd: lambda a, b: a & b, ast.BitXor: lambda a, b: a ^ b, ast.Div: lambda a, b: a / b,
}
_CMPOPS = {
    ast.Eq: lambda a, b: a == b, ast.NotEq: lambda a, b: a != b, ast.Lt: lambda a, b: a < b,
    ast.LtE: lambda a, b: a <= b, ast.Gt: lambda a, b: a > b, ast.GtE: lambda a, b: a >= b,
    ast.In: lambda a, b: a in b, ast.NotIn: lambda a, b: a not in b,
}
_CONST_TYPES = (int, float, bytes, str, bool, type(None), tuple, frozenset)

_PY3_VERSION_INFO = (3, 12, 1, "final", 0)


class Folder(object):
    def __init__(self, pkg):
        self.pkg = pkg
        self._cache = {}
        self._busy = set()

    # -- public -----------------------------------------------------------
    def const(self, modname, name):
        """Folded value of module-level ``name`` in module ``modname``; raises Unfoldable."""
        key = (modname, name)
        if key in self._cache:
            v = self._cache[key]
            if isinstance(v, Unfoldable):
                raise v
            return v
        if key in self._busy:
            raise Unfoldable("recursive constant %s.%s" % key)
        self._busy.add(key)
        try:
            mod = self.pkg.mods.get(modname)
            if mod is None:
                raise Unfoldable("no module %s" % modname)
            exprs = mod.assigns.get(name)
            if not exprs:
                raise Unfoldable("%s.%s is not a module-level assignment" % key)
            vals = []
            for e in exprs:
                vals.append(self.eval(e, mod, {}))
            # several (conditional) assignments must agree
            v = vals[0]
            for w in vals[1:]:
                if w != v:
                    raise Unfoldable("%s.%s has differing assignments" % key)
            self._cache[key] = v
            return v
        except Unfoldable as e:
            self._cache[key] = e
            raise
        finally:
            self._busy.discard(key)

    def need(self, modname, name, rule):
        try:
            return self.const(modname, name)
        except Unfoldable as e:
            raise AnalysisError(rule, "constant %s.%s does not fold: %s" % (modname, name, e))

    def try_eval(self, expr, mod, env=None):
        try:
            return True, self.eval(expr, mod, env or {})
        except Unfoldable:
            return False, None

    # -- evaluator --------------------------------------------------------
    def eval(self, e, mod, env):
        ev = lambda x: self.eval(x, mod, env)
        if isinstance(e, ast.Constant):
            return e.value
        if isinstance(e, ast.Name):
            if e.id in env:
                return env[e.id]
            if e.id in mod.assigns:
                return self.const(mod.name, e.id)
            r = self.pkg.resolve_import(mod, e.id)
            if r and r[0] == "pkgattr":
                return self.const(r[1].name, r[2])
            if e.id in ("True", "False", "None"):
                return {"True": True, "False": False, "None": None}[e.id]
            raise Unfoldable("name %s" % e.id)
        if isinstance(e, ast.Attribute):
            # module.CONST
            if isinstance(e.value, ast.Name) and e.value.id not in env:
                r = self.pkg.resolve_import(mod, e.value.id)
                if r and r[0] == "pkgmod":
                    return self.const(r[1].name, e.attr)
                if r and r[0] == "ext":
                    if r[1] == "stat" and e.attr.startswith("S_") and hasattr(_stat, e.attr):
                        v = getattr(_stat, e.attr)
                        if isinstance(v, int):
                            return v
                    if r[1] == "sys" and e.attr == "version_info":
                        return _PY3_VERSION_INFO
            raise Unfoldable("attribute %s" % ast.dump(e))
        if isinstance(e, ast.BinOp):
            op = _BINOPS.get(type(e.op))
            if op is None:
                raise Unfoldable("binop")
            a, b = ev(e.left), ev(e.right)
            if isinstance(e.op, ast.Mod) and isinstance(a, (bytes, str)):
                # %-formatting of constants by constants is as pure as arithmetic; anything else (objects with __str__) is not folded
                def plain(x):
                    return (isinstance(x, (int, str, bytes)) and not isinstance(x, bool)) or (isinstance(x, tuple) and all(plain(y) for y in x)) \
                        or (isinstance(x, dict) and all(isinstance(k, str) and plain(v) for k, v in x.items()))
                if not plain(b):
                    raise Unfoldable("%-formatting")
            if isinstance(e.op, (ast.Pow, ast.LShift)) and isinstance(b, int) and b > 1 << 16:
                raise Unfoldable("huge")
            try:
                return op(a, b)
            except Exception as x:   # noqa
                raise Unfoldable(str(x))
        if isinstance(e, ast.UnaryOp):
            v = ev(e.operand)
            try:
                if isinstance(e.op, ast.USub):
                    return -v
                if isinstance(e.op, ast.Invert):
                    return ~v
                if isinstance(e.op, ast.Not):
                    return not v
                if isinstance(e.op, ast.UAdd):
                    return +v
            except Exception as x:   # noqa
                raise Unfoldable(str(x))
        if isinstance(e, ast.BoolOp):
            vals = [ev(v) for v in e.values]
            r = vals[0]
            for v in vals[1:]:
                r = (r and v) if isinstance(e.op, ast.And) else (r or v)
            return r
        if isinstance(e, ast.Compare):
            left = ev(e.left)
            for op, c in zip(e.ops, e.comparators):
                right = ev(c)
                f = _CMPOPS.get(type(op))
                if f is None:
                    raise Unfoldable("cmpop")
                try:
                    if not f(left, right):
                        return False
                except Exception as x:   # noqa
                    raise Unfoldable(str(x))
                left = right
            return True
        if isinstance(e, ast.IfExp):
            return ev(e.body) if ev(e.test) else ev(e.orelse)
        if isinstance(e, ast.Tuple):
            return tuple(ev(x) for x in e.elts)
        if isinstance(e, ast.List):
            return tuple(ev(x) for x in e.elts)     # lists fold to tuples (immutable view)
        if isinstance(e, ast.Set):
            return frozenset(ev(x) for x in e.elts)
        if isinstance(e, ast.Dict):
            out = {}
            for k, v in zip(e.keys, e.values):
                if k is None:
                    raise Unfoldable("dict splat")
                out[ev(k)] = ev(v)
            return _FrozenDict(out)
        if isinstance(e, ast.Subscript):
            base = ev(e.value)
            if isinstance(e.slice, ast.Slice):
                lo = ev(e.slice.lower) if e.slice.lower else None
                hi = ev(e.slice.upper) if e.slice.upper else None
                st = ev(e.slice.step) if e.slice.step else None
                try:
                    return base[lo:hi:st]
                except Exception as x:   # noqa
                    raise Unfoldable(str(x))
            idx = ev(e.slice)
            try:
                return base[idx]
            except Exception as x:   # noqa
                raise Unfoldable(str(x))
        if isinstance(e, (ast.GeneratorExp, ast.ListComp, ast.SetComp)):
            items = list(self._comp(e.generators, mod, env, lambda env2: self.eval(e.elt, mod, env2)))
            return frozenset(items) if isinstance(e, ast.SetComp) else tuple(items)
        if isinstance(e, ast.DictComp):
            out = {}
            for k, v in self._comp(e.generators, mod, env,
                                   lambda env2: (self.eval(e.key, mod, env2), self.eval(e.value, mod, env2))):
                out[k] = v
            return _FrozenDict(out)
        if isinstance(e, ast.JoinedStr):
            raise Unfoldable("f-string")
        if isinstance(e, ast.Call):
            return self._call(e, mod, env)
        raise Unfoldable(type(e).__name__)

    def _comp(self, gens, mod, env, leaf):
        def rec(i, env2):
            if i == len(gens):
                yield leaf(env2)
                return
            g = gens[i]
            if g.is_async:
                raise Unfoldable("async comprehension")
            it = self.eval(g.iter, mod, env2)
            if isinstance(it, _FrozenDict):
                it = list(it.keys())
            if not isinstance(it, (tuple, list, bytes, str, frozenset, range)):
                raise Unfoldable("iteration over %s" % type(it).__name__)
            if isinstance(it, frozenset):
                it = sorted(it, key=repr)
            for item in it:
                env3 = dict(env2)
                self._bind(g.target, item, env3)
                if all(self.eval(c, mod, env3) for c in g.ifs):
                    for x in rec(i + 1, env3):
                        yield x
        return rec(0, dict(env))

    def _bind(self, target, value, env):
        if isinstance(target, ast.Name):
            env[target.id] = value
        elif isinstance(target, (ast.Tuple, ast.List)):
            vals = list(value)
            if len(vals) != len(target.elts):
                raise Unfoldable("unpack")
            for t, v in zip(target.elts, vals):
                self._bind(t, v, env)
        else:
            raise Unfoldable("bind target")

    def _call(self, e, mod, env):
        ev = lambda x: self.eval(x, mod, env)
        f = e.func
        if any(k.arg is None for k in e.keywords) or any(isinstance(a, ast.Starred) for a in e.args):
            raise Unfoldable("star call")
        args = [ev(a) for a in e.args]
        kwargs = {k.arg: ev(k.value) for k in e.keywords}
        if isinstance(f, ast.Name) and f.id not in env and f.id not in mod.assigns and f.id in mod.funcs:
            return self._apply(mod.funcs[f.id], mod, args, kwargs)
        if isinstance(f, ast.Name) and f.id not in env and f.id not in mod.assigns and f.id not in mod.imports:
            name = f.id
            try:
                if name == "len" and len(args) == 1:
                    return len(args[0])
                if name == "sum" and args:
                    return sum(*args)
                if name == "min" and args:
                    return min(*args)
                if name == "max" and args:
                    return max(*args)
                if name == "int" and len(args) == 1 and not kwargs:
                    return int(args[0])
                if name == "bytes" and len(args) <= 1 and not kwargs:
                    return bytes(*[list(a) if isinstance(a, tuple) else a for a in args])
                if name == "bytearray" and len(args) == 1:
                    a = args[0]
                    # folded as immutable bytes (only iteration/len are applied to it in constant tables)
                    return bytes(list(a) if isinstance(a, tuple) else a)
                if name == "bytearray" and len(args) == 2 and isinstance(args[0], str):
                    return args[0].encode(args[1])
                if name == "enumerate" and len(args) == 1:
                    return tuple(enumerate(args[0]))
                if name == "tuple" and len(args) <= 1:
                    return tuple(*args)
                if name == "list" and len(args) <= 1:
                    return tuple(*args)
                if name == "range":
                    r = range(*args)
                    if len(r) > 100000:
                        raise Unfoldable("huge range")
                    return tuple(r)
                if name == "dict" and not args:
                    return _FrozenDict(kwargs)
                if name == "dict" and len(args) == 1 and not kwargs and isinstance(args[0], (tuple, _FrozenDict)):
                    return _FrozenDict(dict(args[0]))
                if name == "ord" and len(args) == 1:
                    return ord(args[0])
                if name == "chr" and len(args) == 1:
                    return chr(args[0])
                if name == "reversed" and len(args) == 1:
                    return tuple(reversed(args[0]))
                if name == "sorted" and len(args) == 1 and not kwargs:
                    return tuple(sorted(args[0]))
                if name == "zip":
                    return tuple(zip(*args))
            except Unfoldable:
                raise
            except Exception as x:   # noqa
                raise Unfoldable(str(x))
            raise Unfoldable("call %s" % name)
        if isinstance(f, ast.Attribute):
            # struct.calcsize / method on a folded constant
            if isinstance(f.value, ast.Name) and f.value.id not in env:
                r = self.pkg.resolve_import(mod, f.value.id)
                if r and r[0] == "ext" and r[1] == "struct" and f.attr == "calcsize" and len(args) == 1:
                    try:
                        return _struct.calcsize(args[0])
                    except Exception as x:   # noqa
                        raise Unfoldable(str(x))
                if r and r[0] == "ext" and r[1] == "struct" and f.attr in ("unpack", "pack") and args and not kwargs and isinstance(args[0], (str, bytes)) \
                        and all(isinstance(a, (bytes, int)) and not isinstance(a, bool) for a in args[1:]):
                    # pure functions of constants: folded like arithmetic
                    try:
                        return _struct.unpack(args[0], args[1]) if f.attr == "unpack" else _struct.pack(*args)
                    except Exception as x:   # noqa
                        raise Unfoldable(str(x))
            if isinstance(f.value, ast.Name) and f.value.id == "int" and f.value.id not in env and f.attr == "from_bytes" and args and isinstance(args[0], bytes):
                # int.from_bytes(b, order[, signed=..]): a pure function of constants
                try:
                    return int.from_bytes(*args, **kwargs)
                except Exception as x:   # noqa
                    raise Unfoldable(str(x))
            recv = ev(f.value)
            try:
                if isinstance(recv, str) and f.attr == "format":
                    return recv.format(*args, **kwargs)
                if isinstance(recv, str) and f.attr == "encode":
                    return recv.encode(*args)
                if isinstance(recv, bytes) and f.attr == "decode":
                    return recv.decode(*args)
                if isinstance(recv, (str, bytes)) and f.attr == "join" and len(args) == 1:
                    return recv.join(args[0])
                if isinstance(recv, _FrozenDict) and f.attr == "items" and not args:
                    return tuple(recv.items())
                if isinstance(recv, _FrozenDict) and f.attr == "keys" and not args:
                    return tuple(recv.keys())
                if isinstance(recv, _FrozenDict) and f.attr == "values" and not args:
                    return tuple(recv.values())
                if isinstance(recv, _FrozenDict) and f.attr == "get" and 1 <= len(args) <= 2:
                    return recv.get(*args)
                if isinstance(recv, int) and not isinstance(recv, bool) and f.attr == "to_bytes":
                    return recv.to_bytes(*args, **kwargs)
                if isinstance(recv, (str, bytes)) and f.attr in ("upper", "lower", "strip") and not args:
                    return getattr(recv, f.attr)()
            except Unfoldable:
                raise
            except Exception as x:   # noqa
                raise Unfoldable(str(x))
        raise Unfoldable("call")


class _Return(Exception):
    def __init__(self, value):
        self.value = value


class _Break(Exception):
    pass


class _Continue(Exception):
    pass


def _apply(self, fn, mod, args, kwargs):
    """A module-level helper applied to folded constants (`_id_to_wire(b'CNXN')` in a constant table): its body is folded
    statement by statement when it is a pure computation over its own locals - assignments to plain names, `for` over a
    folded sequence, `while`/`if` on folded tests, `return`; anything else (attribute or subscript stores, global state,
    calls the folder does not know, nested definitions) is TOP.  The number of statements folded is bounded."""
    node = fn.node
    if isinstance(node, ast.AsyncFunctionDef) or node.decorator_list or fn.is_generator:
        raise Unfoldable("call %s" % node.name)
    a = node.args
    if a.vararg or a.kwarg or a.posonlyargs or a.kwonlyargs:
        raise Unfoldable("call %s" % node.name)
    names = [x.arg for x in a.args]
    if len(args) > len(names) or any(k not in names for k in kwargs):
        raise Unfoldable("call %s: arguments" % node.name)
    env = dict(zip(names, args))
    for k, v in kwargs.items():
        if k in env:
            raise Unfoldable("call %s: arguments" % node.name)
        env[k] = v
    defaults = dict(zip(names[len(names) - len(a.defaults):], a.defaults))
    for n in names:
        if n not in env:
            if n not in defaults:
                raise Unfoldable("call %s: arguments" % node.name)
            env[n] = self.eval(defaults[n], mod, {})
    key = ("apply", mod.name, node.name)
    if key in self._busy:
        raise Unfoldable("recursive helper %s" % node.name)
    self._busy.add(key)
    budget = [20000]

    def block(stmts):
        for st in stmts:
            budget[0] -= 1
            if budget[0] < 0:
                raise Unfoldable("call %s: too long" % node.name)
            if isinstance(st, ast.Expr) and isinstance(st.value, ast.Constant):
                continue
            if isinstance(st, ast.Pass):
                continue
            if isinstance(st, ast.Assign) and all(isinstance(t, (ast.Name, ast.Tuple, ast.List)) for t in st.targets):
                v = self.eval(st.value, mod, env)
                for t in st.targets:
                    self._bind(t, v, env)
            elif isinstance(st, ast.AugAssign) and isinstance(st.target, ast.Name):
                env[st.target.id] = self.eval(ast.BinOp(left=ast.Name(id=st.target.id, ctx=ast.Load()), op=st.op, right=st.value), mod, env)
            elif isinstance(st, ast.Return):
                raise _Return(None if st.value is None else self.eval(st.value, mod, env))
            elif isinstance(st, ast.If):
                block(st.body if self.eval(st.test, mod, env) else st.orelse)
            elif isinstance(st, ast.For):
                it = self.eval(st.iter, mod, env)
                if isinstance(it, _FrozenDict):
                    it = tuple(it.keys())
                if not isinstance(it, (tuple, bytes, str)):
                    raise Unfoldable("iteration over %s" % type(it).__name__)
                broke = False
                for item in it:
                    self._bind(st.target, item, env)
                    try:
                        block(st.body)
                    except _Break:
                        broke = True
                        break
                    except _Continue:
                        continue
                if not broke:
                    block(st.orelse)
            elif isinstance(st, ast.While):
                broke = False
                while self.eval(st.test, mod, env):
                    budget[0] -= 1
                    if budget[0] < 0:
                        raise Unfoldable("call %s: too long" % node.name)
                    try:
                        block(st.body)
                    except _Break:
                        broke = True
                        break
                    except _Continue:
                        continue
                if not broke:
                    block(st.orelse)
            elif isinstance(st, ast.Break):
                raise _Break()
            elif isinstance(st, ast.Continue):
                raise _Continue()
            else:
                raise Unfoldable("call %s: %s" % (node.name, type(st).__name__))
    try:
        try:
            block(node.body)
        except _Return as r:
            return r.value
        except (_Break, _Continue):
            raise Unfoldable("call %s" % node.name)
        return None
    finally:
        self._busy.discard(key)


Folder._apply = _apply


class _FrozenDict(dict):
    """A folded dict display (treated as immutable; hashable by content for comparisons)."""

    def __hash__(self):
        return hash(tuple(sorted(self.items(), key=repr)))
