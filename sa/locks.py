"""LOCK rule family: guarded-by, with-only, acquisition order / re-acquisition, deny-list under a lock."""
import ast
from .terms import crepr

from .loader import AnalysisError, walk_own, walk_expr
from .dataflow import key, varkey, unawait, vars_in
from .roles import all_roles, reaches_io
from .util import src, node_calls, call_attr, norm_stmt, own_calls

LOCK_TYPES = {"ext:Lock", "ext:RLock"}

# frozen guarded-by table (confirmed by reading the class docstrings and every access): attribute -> lock attribute
GUARDED_BY_IO = {"_transport": "_transport_lock", "_packet_store": "_store_lock"}
GUARDED_BY_DEV = {"_local_id": "_local_id_lock"}

BLOCKING_QUEUE_OPS = {"get", "put", "join"}


class LockInfo(object):
    def __init__(self, ctx, roles):
        self.ctx = ctx
        self.roles = roles
        cg = ctx.cg
        self.locks = {}    # (class qualname, attr) for lock-typed attributes
        for cls in (roles.io_cls, roles.dev_cls):
            for attr, types in cg.attr_types.get(cls.qualname, {}).items():
                if types & LOCK_TYPES:
                    self.locks[(cls.qualname, attr)] = types
        self._acq = None

    def lock_of_with(self, func, wnode):
        """Lock key (class qualname, attr) taken by a with-enter node, or None."""
        e = unawait(wnode.item.context_expr)
        k = varkey(e)
        if k is None or "." not in k:
            return None
        parts = k.split(".")
        if len(parts) == 2 and func.cls is not None and func.params and parts[0] == func.params[0]:
            for c in self.ctx.pkg.mro(func.cls):
                if (c.qualname, parts[1]) in self.locks:
                    return (c.qualname, parts[1])
        # lock reached through another object (e.g. self._io_manager._transport_lock)
        types = self.ctx.cg.expr_types(func, e)
        if types & LOCK_TYPES:
            bt = self.ctx.cg.expr_types(func, e.value) if isinstance(e, ast.Attribute) else set()
            for t in bt:
                if (t, parts[-1]) in self.locks:
                    return (t, parts[-1])
            return ("?", parts[-1])
        return None

    def held(self, func, node):
        out = []
        for w in node.withs:
            lk = self.lock_of_with(func, w)
            if lk is not None:
                out.append(lk)
        return out

    def acquires(self):
        """Func -> set of locks it may take (lexically or through calls)."""
        if self._acq is not None:
            return self._acq
        ctx = self.ctx
        acq = {}
        for f in ctx.pkg.funcs.values():
            s = set()
            g = ctx.cfg(f)
            for n in g.nodes:
                if n.kind == "with":
                    lk = self.lock_of_with(f, n)
                    if lk is not None:
                        s.add(lk)
            acq[f] = s
        changed = True
        while changed:
            changed = False
            for f, sites in ctx.cg.sites.items():
                for cs in sites:
                    for c in cs.callees:
                        extra = acq.get(c, set()) - acq[f]
                        if extra:
                            acq[f] |= extra
                            changed = True
        self._acq = acq
        return acq

    def funcs_under(self, lock):
        """Functions that may execute while `lock` is held (called, transitively, from a node holding it)."""
        ctx = self.ctx
        roots = set()
        for f in ctx.pkg.funcs.values():
            g = ctx.cfg(f)
            for n in g.nodes:
                if lock in self.held(f, n):
                    for c in node_calls(n):
                        cs = ctx.cg.site(c)
                        if cs is not None:
                            roots.update(cs.callees)
        return ctx.cg.reachable(roots)


def rule_with_only(ctx, R, roles, li, prop_rule="LOCK-with"):
    """(ii) locks are taken only through `with`: no acquire/release/locked calls anywhere in the device module."""
    n = 0
    for f in roles.mod.all_funcs:
        for c in own_calls(f):
            if isinstance(c.func, ast.Attribute) and c.func.attr in ("acquire", "release", "locked", "acquire_lock", "release_lock"):
                recv = c.func.value
                types = ctx.cg.expr_types(f, recv)
                k = varkey(unawait(recv)) or ""
                if types & LOCK_TYPES or k.endswith("_lock") or "lock" in k.lower():
                    n += 1
                    R.fail(prop_rule, "%s|%s" % (f.qualname, norm_stmt(c)),
                           "lock manipulated with an explicit %s() call: an exception between acquire and release leaves it held" % c.func.attr, f.loc(c))
    # zero-expected rule: built-in positive example must match
    probe = ast.parse("def f(self):\n    self._transport_lock.acquire()\n    self.x()\n    self._transport_lock.release()\n")
    hits = [c for c in ast.walk(probe) if isinstance(c, ast.Call) and isinstance(c.func, ast.Attribute) and c.func.attr in ("acquire", "release")]
    if len(hits) != 2:
        raise AnalysisError(prop_rule, "built-in positive example no longer matches")
    nwith = 0
    for f in roles.mod.all_funcs:
        g = ctx.cfg(f)
        for w in g.nodes:
            if w.kind == "with" and li.lock_of_with(f, w) is not None:
                nwith += 1
    R.ok(prop_rule, roles.mod.name + "|with-only", "all %d lock acquisitions use `with` (released on every exit, including exceptions); no explicit acquire/release" % nwith, roles.mod.relpath)
    return nwith


def rule_guarded_by(ctx, R, roles, li, table, cls, rule="LOCK-guard"):
    """(i) every access to a guarded attribute happens with its lock held (lexically or by all callers)."""
    cg = ctx.cg
    methods = [m for m in cls.methods.values() if m.name != "__init__"]
    for attr, lockattr in sorted(table.items()):
        lock = (cls.qualname, lockattr)
        if lock not in li.locks:
            R.fail(rule, "%s.%s" % (cls.qualname, lockattr), "lock attribute %s no longer exists or is not a Lock" % lockattr, cls.mod.relpath)
            continue
        # functions that need the lock from their callers (greatest fixpoint over private methods)
        def accesses(f):
            g = ctx.cfg(f)
            out = []
            if not f.params:
                return out
            sk = f.params[0] + "." + attr
            for n in g.live_nodes():
                hit = False
                for e in n.exprs():
                    for v in vars_in(e):
                        if v == sk or v.startswith(sk + "."):
                            hit = True
                # writes
                for d in ctx.df(f).node_defs.get(n, []):
                    if n is not g.entry and d.kind not in ("base", "callmut") and (d.var == sk or d.var.startswith(sk + ".")):
                        hit = True
                if hit:
                    out.append(n)
            return out

        unprotected = {}
        for f in methods:
            bad = [n for n in accesses(f) if lock not in li.held(f, n)]
            if bad:
                unprotected[f] = bad
        # callers must hold the lock at every call site of such a function; iterate
        req = set(unprotected)
        ok_req = set()
        changed = True
        bad_sites = {}
        work = list(req)
        seen = set()
        while work:
            f = work.pop()
            if f in seen:
                continue
            seen.add(f)
            callers = cg.callers_of(f)
            if not f.name.startswith("_") or not callers:
                bad_sites.setdefault(f, []).append(None)
                continue
            for cs in callers:
                cf = cs.func
                g = ctx.cfg(cf)
                nodes = [n for n in g.nodes if any(c is cs.node for c in node_calls(n))]
                for n in nodes:
                    if lock in li.held(cf, n):
                        continue
                    if cf.cls is cls and cf.name.startswith("_"):
                        work.append(cf)     # the caller in turn needs it from its callers
                        req.add(cf)
                    else:
                        bad_sites.setdefault(f, []).append((cf, n))
        count = 0
        for f in methods:
            for n in accesses(f):
                count += 1
                sub = "%s|%s|%s" % (f.qualname, attr, norm_stmt(n.exprs()[0]) if n.exprs() else n.kind)
                if lock in li.held(f, n):
                    R.ok(rule, sub, "`%s` accessed inside `with %s`" % (attr, lockattr), f.loc(n.ast))
                elif f in bad_sites:
                    where = bad_sites[f]
                    if where[0] is None:
                        R.fail(rule, sub, "`%s` is accessed without holding %s (the method is public or has no caller that holds it)" % (attr, lockattr), f.loc(n.ast))
                    else:
                        cf, cn = where[0]
                        R.fail(rule, sub, "`%s` is accessed without %s: caller %s reaches it at `%s` without the lock" % (attr, lockattr, cf.qualname, norm_stmt(cn.ast)), f.loc(n.ast))
                else:
                    # transitively required from callers; any failing ancestor?
                    anc_bad = [a for a in bad_sites if a in _ancestors(ctx, f, cls)]
                    if anc_bad:
                        a = anc_bad[0]
                        R.fail(rule, sub, "`%s` is accessed without %s on a call chain through %s" % (attr, lockattr, a.qualname), f.loc(n.ast))
                    else:
                        R.ok(rule, sub, "`%s` accessed in a private helper all of whose call sites hold %s" % (attr, lockattr), f.loc(n.ast))
        R.rule_counts["%s[%s.%s]" % (rule, cls.name, attr)] = count
        if count == 0:
            raise AnalysisError(rule, "no access to guarded attribute %s.%s found - anchor lost" % (cls.qualname, attr))


def _ancestors(ctx, f, cls):
    out = set()
    stack = [f]
    while stack:
        x = stack.pop()
        for cs in ctx.cg.callers_of(x):
            if cs.func not in out:
                out.add(cs.func)
                stack.append(cs.func)
    return out


def rule_order(ctx, R, roles, li, rule="LOCK-order"):
    """(iii) acquisition graph: transport lock before store lock, never the reverse; no re-acquisition of a held lock."""
    acq = li.acquires()
    edges = {}   # (outer, inner) -> witness
    for f in roles.mod.all_funcs:
        g = ctx.cfg(f)
        for n in g.nodes:
            held = li.held(f, n)
            if not held:
                continue
            if n.kind == "with":
                lk = li.lock_of_with(f, n)
                if lk is not None:
                    for h in held:
                        edges.setdefault((h, lk), (f, n, "with"))
            for c in node_calls(n):
                cs = ctx.cg.site(c)
                if cs is None:
                    continue
                for callee in cs.callees:
                    for lk in acq.get(callee, ()):
                        for h in held:
                            edges.setdefault((h, lk), (f, n, "call to " + callee.qualname))
    io = roles.io_cls.qualname
    tl, sl = (io, "_transport_lock"), (io, "_store_lock")
    for (a, b), (f, n, how) in sorted(edges.items(), key=lambda kv: crepr(kv[0])):
        sub = "%s->%s|%s" % (a[1], b[1], f.qualname)
        if a == b:
            R.fail(rule, sub, "%s is re-acquired while already held (%s at `%s`): non-reentrant lock, certain self-deadlock" % (a[1], how, norm_stmt(n.exprs()[0])), f.loc(n.ast))
        elif (a, b) == (sl, tl):
            R.fail(rule, sub, "store lock held while the transport lock is taken (%s): violates the documented order transport-before-store, deadlock with the pump" % how, f.loc(n.ast))
        else:
            R.ok(rule, sub, "nested acquisition %s then %s (%s)" % (a[1], b[1], how), f.loc(n.ast))
    # acyclicity
    adj = {}
    for (a, b) in edges:
        if a != b:
            adj.setdefault(a, set()).add(b)

    def cyc(start):
        stack, seen = [start], set()
        while stack:
            x = stack.pop()
            for y in adj.get(x, ()):
                if y == start:
                    return True
                if y not in seen:
                    seen.add(y)
                    stack.append(y)
        return False
    for a in adj:
        if cyc(a):
            R.fail(rule, "cycle|%s" % a[1], "lock acquisition graph has a cycle through %s" % a[1], roles.mod.relpath)
    R.check((tl, sl) in edges, rule, roles.mod.name + "|documented-order", "transport lock is taken before the store lock wherever both are held",
            "no nested transport->store acquisition found (anchor of the documented lock order lost)", roles.mod.relpath, trivial=True)
    return edges


def rule_deny(ctx, R, roles, li, rule="LOCK-deny"):
    """(iv) nothing blocking under a lock; under the store / id lock no transport I/O at all."""
    rio = reaches_io(ctx)
    cg = ctx.cg
    io = roles.io_cls.qualname
    dev = roles.dev_cls.qualname
    short_locks = [(io, "_store_lock"), (dev, "_local_id_lock")]
    checked = 0
    for lock in sorted(li.locks):
        under = li.funcs_under(lock)
        regions = []   # (func, node) executed with lock held
        for f in roles.mod.all_funcs:
            g = ctx.cfg(f)
            for n in g.nodes:
                if lock in li.held(f, n):
                    regions.append((f, n, "lexically"))
        for f in under:
            g = ctx.cfg(f)
            for n in g.nodes:
                regions.append((f, n, "called under the lock"))
        for f, n, how in regions:
            for c in node_calls(n):
                checked += 1
                cs = cg.site(c)
                a = call_attr(c)
                sub = "%s|%s|%s" % (lock[1], f.qualname, norm_stmt(c))
                if isinstance(c.func, ast.Attribute) and a in BLOCKING_QUEUE_OPS:
                    types = cg.expr_types(f, c.func.value)
                    is_q = any(t.startswith("ext:") and "Queue" in t for t in types)
                    recv = src(c.func.value)
                    from .util import store_level
                    lv = store_level(ctx, f, n, c.func.value) if f.cls is not None and f.cls.name == "_AdbPacketStore" else None
                    in_store = f.cls is not None and f.cls.name == "_AdbPacketStore" and not (cs and cs.callees) and (lv == 2 or (lv is None and "_dict" in recv))
                    if is_q or in_store:
                        R.fail(rule, sub, "blocking queue operation `%s` %s %s (only the _nowait variants may be used)" % (norm_stmt(c), how, lock[1]), f.loc(c))
                if cs is not None and cs.ext in ("time.sleep", "asyncio.sleep"):
                    R.fail(rule, sub, "sleep %s %s" % (how, lock[1]), f.loc(c))
                if lock in short_locks:
                    reaches = a in ("bulk_read", "bulk_write") or (cs is not None and any(x in rio for x in cs.callees))
                    if reaches:
                        R.fail(rule, sub, "transport I/O (`%s`) %s %s, which must never be held for long" % (norm_stmt(c), how, lock[1]), f.loc(c))
    R.ok(rule, roles.mod.name + "|deny-list", "%d calls executed under a lock inspected: no blocking queue op, no sleep, no transport I/O under the short locks" % checked, roles.mod.relpath)


def rule_lock_objects(ctx, R, roles, li, rule="LOCK-object"):
    """Every lock attribute is bound exactly once, in the constructor, to a fresh lock: a lock that is created lazily or replaced
    later does not exclude a thread that still holds (or is about to create) another lock object."""
    from .util import attr_writes
    for cls in (roles.io_cls, roles.dev_cls):
        lock_attrs = set(a for (cq, a) in li.locks if cq == cls.qualname) | set(a for a in ctx.cg.attr_types.get(cls.qualname, {}) if a.endswith("_lock"))
        for attr in sorted(lock_attrs):
            writers = []
            for m in cls.methods.values():
                if not m.params:
                    continue
                for k, st, kind in attr_writes(m):
                    if k == m.params[0] + "." + attr:
                        writers.append((m, st))
            ok = len(writers) == 1 and writers[0][0].name == "__init__" and isinstance(writers[0][1], ast.Assign) and isinstance(writers[0][1].value, ast.Call) \
                and bool(ctx.cg.expr_types(writers[0][0], writers[0][1].value) & LOCK_TYPES)
            where = ", ".join(sorted(set(m.name for m, _s in writers)))
            R.check(ok, rule, "%s.%s" % (cls.qualname, attr), "`%s` is created once, in the constructor" % attr,
                    "`%s` is not bound exactly once in the constructor to a new Lock (written in: %s): two threads can end up holding different lock objects" % (attr, where or "nowhere"), cls.mod.relpath)
