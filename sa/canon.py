"""E0.5 - canonicaliser: behaviour-preserving normalisation of every function body before any rule looks at it.

The rules decide properties from the *shape* of the code; many shapes are interchangeable (a temporary more or less, a
helper extracted or inlined, an if/else written the other way round, a loop rotated).  Instead of teaching every rule
every spelling, the loader rewrites each module into one canonical spelling.  Every rewrite below is a classical program
equivalence; each states the side condition under which it is applied, and is skipped when the condition cannot be
established syntactically (the code is then analysed as written).

  FWD    forward substitution of a temporary: `v = e; ... use(v)` -> `use(e)` when v is a local with one store and either
         (a) one load that sits in the eagerly evaluated part of a later statement of the same block, nothing that could
             interfere with `e` happening in between, or
         (b) e is a pure expression over stable operands (constants, never-reassigned locals/parameters, module constants,
             len()/int()-style builtins) and every load comes after the store in the same block.
  UNPACK `a, v = e; T = v` -> `a, T = e` (a single-use name of a tuple target handed on by the very next statement), and
         `a, b = e; X, Y = a, b` -> `X, Y = e`.
  NOT    `if not c: A else: B` -> `if c: B else: A`; `A if not c else B` -> `B if c else A`.
  ELSE   `if c: A(always exits) else: B` -> `if c: A` ; B   (and the mirrored form, with the test negated).
  GUARD  `if c: A(exits)` ; R(exits) with len(R) < len(A) -> `if not c: R` ; A   (smaller arm becomes the guard clause).
  SINK   `if c: A [else: B]` ; `return e` (e call-free) -> the return is copied into both arms.
  IFEXP  `if c: v = a else: v = b` (v introduced by the inliner) -> `v = a if c else b`.
  ROT    `S; while c: B; S` -> `while True: S; if not c: break; B`   (B without `continue`, no loop-else).
  BRK    in a `while True` loop (no else) with exactly one `break` and whose enclosing block is the function body (or
         whose remainder R always exits): `break` -> R ; `return`   (R is moved, not copied).
  INLINE a call of a helper the rule tables do not know (not in known_funcs.KNOWN: i.e. introduced after the tree the
         rules were confirmed on), defined once in the same module/class, not recursive, not a generator, no
         *args/**kwargs: the body is spliced in (parameters bound to fresh temporaries, locals renamed, returns turned
         into an assignment when every return is in tail position; `return h(..)` keeps the returns).  A private helper
         whose every reference was inlined is dropped from the canonical module.

Nothing here consults or modifies /repo; the rewriting happens on the parsed tree in memory.  Line numbers of the
original statements are kept, so reports still point at the source.
"""
import ast
import copy

PURE_BUILTINS = {"len", "int", "bytes", "bytearray", "str", "bool", "tuple", "list", "min", "max", "abs", "isinstance", "float", "repr", "ord", "chr", "sum", "sorted", "set", "frozenset", "dict"}
IMMUTABLE_BUILTINS = {"len", "int", "bytes", "str", "bool", "min", "max", "abs", "isinstance", "float", "ord", "chr"}   # results have no identity worth preserving
INERT_RECEIVERS = {"_LOGGER", "logging", "logger", "_LOG"}


class Bail(Exception):
    pass


NONNULL_CONSTS = set()     # dumps of `constants.NAME` expressions whose value is a literal other than None (filled by the loader)
CLASS_METHODS = {}    # class name (defined once in the package) -> {method: (params without self, number of defaults)}
NONNULL_LIST_PARAMS = set()   # (function name, parameter name): private functions whose every call site in the package passes a display of non-None constants
RET_ARITY_CLS = {}        # (class name, method name) -> n, likewise, for classes defined once
RET_ARITY = {}            # function / method name (defined once in the package) -> n when every return is a tuple display of n elements
SENTINELS = {}            # modname -> names bound once, at module level, to a fresh `object()` (private markers)
FOREIGN_INLINED = set()      # names of foreign methods / functions that were inlined at least once in this load (only those may be dropped when unreferenced)
FOREIGN_HOME_MODULES = set()     # top-level module names of the package (filled by the loader)
FOREIGN_FUNCS = {}    # module-level functions of top-level package modules, likewise (callers import them by name)
FOREIGN = {}          # method name -> FunctionDef: methods of package classes (defined once in the whole package, not known to the rule tables,
                      # touching only their own object) that callers in other classes / modules may have inlined
MODINTS = {}          # module -> {name: int} for module-level names bound once to an integer literal (used by CONSTFOLD next to a literal operand)
PARAM_READONLY = {}   # function / method name -> set of parameter names that every definition of that name only reads (membership, iteration, formatting,
                      # handing on to a parameter that is itself only read): a shared constant display may be passed where a fresh one was (filled by build_foreign)
IMPORTED_NAMES = set()  # names some module of the package imports from another one (`from .m import X`)
ATTR_FOREIGN = set()  # attribute names read or written on something other than the `self` of the enclosing method (or named in a string)
ATTR_SELF = {}        # attribute name -> {(module, class, bound in that class's __init__)}: where it is used as `self.name`
ATTR_MODULES = {}     # attribute name -> set of modules in which `<expr>.name` occurs (filled by build_foreign)
STATICS = {}          # (class name, method name) -> FunctionDef: static methods, unknown to the rule tables, of classes defined once (called as `K.m(..)`; filled by build_foreign)
NULLNESS = None       # sa.nullness.Nullness of the package (never-None facts about results, private parameters, queue elements), set by the loader
PURE_PROPS = {}       # property name -> (name of self, returned expression): read-only properties unknown to the rule tables whose name is defined once in the package (filled by build_foreign)
RECORDS = {}          # class name -> (ClassDef, home module, {method: (FunctionDef, needs)}, fields): small record classes unknown to the rule tables (filled by build_foreign)
SIGS = {}      # simple name -> parameter list, for classes (constructor, without self) and module-level functions defined once in the package


def build_signatures(trees):
    """trees: iterable of parsed modules.  Names defined more than once in the package are left out."""
    seen, out = {}, {}

    def params_of(fn, drop_first):
        a = fn.args
        if a.vararg or a.kwarg or a.posonlyargs:
            return None
        ps = [x.arg for x in a.args]
        return ps[1:] if drop_first else ps
    for t in trees:
        for st in t.body:
            if isinstance(st, (ast.FunctionDef, ast.AsyncFunctionDef)):
                seen[st.name] = seen.get(st.name, 0) + 1
                out[st.name] = params_of(st, False)
            elif isinstance(st, ast.ClassDef):
                seen[st.name] = seen.get(st.name, 0) + 1
                init = [m for m in st.body if isinstance(m, ast.FunctionDef) and m.name == "__init__"]
                out[st.name] = params_of(init[0], True) if len(init) == 1 else None
    return {k: v for k, v in out.items() if seen[k] == 1 and v is not None}


_CONTAINER_METHODS = set(n for t in (list, dict, set, bytes, bytearray, str, tuple, frozenset, int, object) for n in dir(t)) | {
    "put", "put_nowait", "get", "get_nowait", "qsize", "empty", "full", "join", "task_done", "acquire", "release", "locked", "close", "connect", "read", "write",
    "send", "recv", "open", "wait", "notify", "set", "clear", "cancel", "result", "done", "flush", "seek", "tell", "readline", "drain", "shutdown", "settimeout"}


def _foreign_body_ok(m, t, is_method):
    """-> set of (name, binding) the body needs from its module, or None when the function cannot be inlined elsewhere"""
    import builtins as _b
    a = m.args
    if a.vararg or a.kwarg or a.kwonlyargs or a.posonlyargs or (is_method and not a.args):
        return None
    if any(not (isinstance(d, ast.Constant) or (isinstance(d, ast.Attribute) and isinstance(d.value, ast.Name) and d.value.id == "constants")) for d in a.defaults):
        return None
    local = set(x.arg for x in a.args)
    for n in ast.walk(m):
        if isinstance(n, ast.Name) and isinstance(n.ctx, (ast.Store, ast.Del)):
            local.add(n.id)
        if isinstance(n, ast.With) and all(_plain_lock_item(it) for it in n.items):
            continue          # (holding a lock attribute of the object: nothing that depends on where the code stands)
        if isinstance(n, (ast.YieldFrom, ast.Await, ast.Global, ast.Nonlocal, ast.Lambda, ast.Try, ast.With)) or (isinstance(n, (ast.FunctionDef, ast.ClassDef)) and n is not m):
            return None
        if isinstance(n, ast.Yield) and not _simple_generator(m):
            return None
    needs = set()
    consts = {}
    binds = _module_bindings(t)
    for n in ast.walk(m):
        if isinstance(n, ast.Name) and isinstance(n.ctx, ast.Load) and n.id not in local and not hasattr(_b, n.id):
            b_ = binds.get(n.id)
            if b_ is not None and b_[0] in ("def", "import", "from"):
                needs.add((n.id, b_))      # fine where the caller's module binds that name to the same thing (or not at all)
            elif b_ is not None and b_[0] == "assign" and _literal_module_const(t, n.id) is not None:
                consts[n.id] = _literal_module_const(t, n.id)       # a module-level literal bound once: the inlined copy carries the value
            else:
                return None          # reads a module-level variable of its own module
    if _size(m.body) > 14:
        return None
    m._sa_consts = consts
    return needs


def _literal_module_const(t, name):
    """the value expression of `NAME = <arithmetic over literals>` when that is the only binding of NAME in module t; else None"""
    stores = [n for n in ast.walk(t) if isinstance(n, ast.Name) and n.id == name and isinstance(n.ctx, (ast.Store, ast.Del))]
    if len(stores) != 1 or any(isinstance(n, (ast.Global, ast.Nonlocal)) and name in n.names for n in ast.walk(t)):
        return None
    for st in t.body:
        if isinstance(st, ast.Assign) and len(st.targets) == 1 and st.targets[0] is stores[0]:
            v = st.value
            if all(isinstance(x, (ast.Constant, ast.BinOp, ast.UnaryOp, ast.operator, ast.unaryop)) for x in ast.walk(v)):
                return v
    return None


def build_foreign(trees, known):
    """trees: {modname: tree}."""
    seen, out = {}, {}
    FOREIGN_FUNCS.clear()
    fseen = {}
    for modname, t in trees.items():
        for st in t.body:
            if isinstance(st, ast.FunctionDef) and "." not in modname:
                fseen[st.name] = fseen.get(st.name, 0) + 1
                q = "%s.%s" % (modname, st.name)
                if q in known or st.decorator_list or st.name.startswith("__"):
                    continue
                needs = _foreign_body_ok(st, t, False)
                if needs is not None and not any(isinstance(n, ast.Call) and isinstance(n.func, ast.Name) and n.func.id == st.name for n in ast.walk(st)):
                    st._sa_home = (modname, frozenset(needs))
                    FOREIGN_FUNCS[st.name] = st
    for k in list(FOREIGN_FUNCS):
        if fseen.get(k) != 1:
            del FOREIGN_FUNCS[k]
    for modname, t in trees.items():
        for st in t.body:
            if not isinstance(st, ast.ClassDef):
                if isinstance(st, (ast.FunctionDef, ast.AsyncFunctionDef)):
                    seen[st.name] = seen.get(st.name, 0) + 2
                continue
            for m in st.body:
                if not isinstance(m, (ast.FunctionDef, ast.AsyncFunctionDef)):
                    continue
                seen[m.name] = seen.get(m.name, 0) + 1
                q = "%s.%s.%s" % (modname, st.name, m.name)
                if q in known or m.name in _CONTAINER_METHODS or m.name.startswith("_") or m.decorator_list:       # (private methods are called through self only)
                    continue
                if isinstance(m, ast.AsyncFunctionDef):
                    continue
                needs = _foreign_body_ok(m, t, True)
                if needs is None:
                    continue
                m._sa_home = (modname, frozenset(needs))
                out[m.name] = m
    _build_records(trees, known)
    _build_pure_props(trees, known)
    _build_param_readonly(trees)
    _build_moddicts(trees)
    ATTR_MODULES.clear()
    ATTR_FOREIGN.clear()
    ATTR_SELF.clear()
    for modname, t in trees.items():
        for n in ast.walk(t):
            if isinstance(n, ast.Attribute):
                ATTR_MODULES.setdefault(n.attr, set()).add(modname)
            elif isinstance(n, ast.Constant) and isinstance(n.value, str) and n.value.isidentifier():
                ATTR_MODULES.setdefault(n.value, set()).add("*")          # getattr(x, "name") and friends
                ATTR_FOREIGN.add(n.value)
        selfuse = set()
        for c in [x for x in t.body if isinstance(x, ast.ClassDef)]:
            inits = set()
            for m in c.body:
                if isinstance(m, (ast.FunctionDef, ast.AsyncFunctionDef)) and m.args.args and not any(_dec(d) == "staticmethod" for d in m.decorator_list):
                    sn = m.args.args[0].arg
                    for n in ast.walk(m):
                        if isinstance(n, ast.Attribute) and isinstance(n.value, ast.Name) and n.value.id == sn:
                            selfuse.add(id(n))
                            if m.name == "__init__" and isinstance(n.ctx, ast.Store):
                                inits.add(n.attr)
            for m in c.body:
                if isinstance(m, (ast.FunctionDef, ast.AsyncFunctionDef)):
                    for n in ast.walk(m):
                        if isinstance(n, ast.Attribute) and id(n) in selfuse:
                            ATTR_SELF.setdefault(n.attr, set()).add((modname, c.name, n.attr in inits))
        for n in ast.walk(t):
            if isinstance(n, ast.Attribute) and id(n) not in selfuse:
                ATTR_FOREIGN.add(n.attr)
    STATICS.clear()
    ccount = {}
    for t in trees.values():
        for n in ast.walk(t):
            if isinstance(n, ast.ClassDef):
                ccount[n.name] = ccount.get(n.name, 0) + 1
    for modname, t in trees.items():
        for st in t.body:
            if isinstance(st, ast.ClassDef) and ccount.get(st.name) == 1:
                names = [m.name for m in st.body if isinstance(m, (ast.FunctionDef, ast.AsyncFunctionDef))]
                for m in st.body:
                    if isinstance(m, ast.FunctionDef) and [_dec(d) for d in m.decorator_list] == ["staticmethod"] and names.count(m.name) == 1 \
                            and "%s.%s.%s" % (modname, st.name, m.name) not in known and not m.name.startswith("__"):
                        needs = _foreign_body_ok(m, t, False)
                        if needs is not None and not any(isinstance(n, ast.Attribute) and n.attr == m.name for n in ast.walk(m)):
                            m._sa_home = (modname, frozenset(needs))
                            STATICS[(st.name, m.name)] = m
    return {k: v for k, v in out.items() if seen.get(k) == 1}


MODDICT_NAMES = set()      # module-level names that are, in every module of the package that binds them, bound once to a dict display / comprehension


def _build_moddicts(trees):
    MODDICT_NAMES.clear()
    good, bad = set(), set()
    for t in trees.values():
        seen = {}
        for st in t.body:
            for n in ast.walk(st):
                if isinstance(n, ast.Name) and isinstance(n.ctx, (ast.Store, ast.Del)):
                    seen[n.id] = seen.get(n.id, 0) + 1
        for st in t.body:
            if isinstance(st, ast.Assign) and len(st.targets) == 1 and isinstance(st.targets[0], ast.Name):
                nm = st.targets[0].id
                v = st.value
                isd = isinstance(v, (ast.Dict, ast.DictComp)) or (isinstance(v, ast.Call) and isinstance(v.func, ast.Name) and v.func.id == "dict")
                (good if isd and seen.get(nm) == 1 else bad).add(nm)
        for n in ast.walk(t):
            # rebinding / in-place change from inside a function: not a constant table
            if isinstance(n, ast.Global):
                bad.update(n.names)
    MODDICT_NAMES.update(good - bad)


def _build_pure_props(trees, known):
    """`x.p` for a property p that only returns an expression of self's attributes is that expression with x for self.  The attribute
    name must mean that property wherever it is read: defined once in the whole package (no other def, class attribute, assignment or
    deletion of the name), decorated with `@property` alone, not a function the rule tables know."""
    PURE_PROPS.clear()
    defs, assigned, cand = {}, set(), {}
    shadow = set()
    for modname, t in trees.items():
        shadow |= set(_module_bindings(t))
        for n in ast.walk(t):
            if isinstance(n, (ast.FunctionDef, ast.AsyncFunctionDef, ast.ClassDef)):
                defs[n.name] = defs.get(n.name, 0) + 1
            elif isinstance(n, ast.Attribute) and isinstance(n.ctx, (ast.Store, ast.Del)):
                assigned.add(n.attr)
            elif isinstance(n, ast.Constant) and isinstance(n.value, str) and n.value.isidentifier():
                assigned.add(n.value)           # setattr(x, "name", ..) and friends
            elif isinstance(n, ast.ClassDef):
                pass
        for c in [x for x in ast.walk(t) if isinstance(x, ast.ClassDef)]:
            for st in c.body:
                if isinstance(st, (ast.Assign, ast.AnnAssign, ast.AugAssign)):
                    for x in ast.walk(st):
                        if isinstance(x, ast.Name) and isinstance(x.ctx, ast.Store):
                            assigned.add(x.id)
        for c in t.body:
            if not isinstance(c, ast.ClassDef):
                continue
            for m in c.body:
                if not isinstance(m, ast.FunctionDef) or [_dec(d) for d in m.decorator_list] != ["property"]:
                    continue
                if "%s.%s.%s" % (modname, c.name, m.name) in known or len(m.args.args) != 1 or m.args.vararg or m.args.kwarg or m.args.kwonlyargs:
                    continue
                body = [b for b in m.body if not (isinstance(b, ast.Expr) and isinstance(b.value, ast.Constant))]
                if len(body) != 1 or not isinstance(body[0], ast.Return) or body[0].value is None:
                    continue
                selfn, e, ok = m.args.args[0].arg, body[0].value, True
                bases = set(id(n.value) for n in ast.walk(e) if isinstance(n, ast.Attribute) and isinstance(n.value, ast.Name) and n.value.id == selfn)
                funcs = set(id(n.func) for n in ast.walk(e) if isinstance(n, ast.Call) and isinstance(n.func, ast.Name) and n.func.id in IMMUTABLE_BUILTINS
                            and not n.keywords and not any(isinstance(a, ast.Starred) for a in n.args))
                for n in ast.walk(e):
                    if isinstance(n, ast.Name):
                        if not ((n.id == selfn and id(n) in bases) or id(n) in funcs):
                            ok = False
                    elif isinstance(n, ast.Call):
                        if id(n.func) not in funcs:
                            ok = False
                    elif isinstance(n, ast.Subscript):
                        if not isinstance(n.slice, ast.Constant):
                            ok = False
                    elif not isinstance(n, (ast.Constant, ast.Tuple, ast.Attribute, ast.BinOp, ast.UnaryOp, ast.Compare, ast.BoolOp, ast.IfExp, ast.expr_context, ast.operator, ast.unaryop, ast.cmpop, ast.boolop)):
                        ok = False
                if ok and _size([body[0]]) <= 6:
                    cand[m.name] = (selfn, e)
    for name, v in cand.items():
        if defs.get(name) == 1 and name not in assigned and not name.startswith("__") and name not in _CONTAINER_METHODS:
            if not any(isinstance(n, ast.Name) and n.id in shadow and n.id != v[0] for n in ast.walk(v[1])):
                PURE_PROPS[name] = v


_RECORD_DUNDERS = {"__init__", "__repr__", "__str__"}


def _build_records(trees, known):
    """Record classes: a class of the package (defined once, not known to the rule tables, no bases but `object`, no decorators, no class-level
    state, no attribute hooks) whose `__init__` does nothing but bind fields: `self.a = <expression of the parameters>`.  A local object of such
    a class that never leaves the function is a bundle of local variables (scalar replacement, SROA in the Inliner)."""
    RECORDS.clear()
    count = {}
    for t in trees.values():
        for st in ast.walk(t):
            if isinstance(st, ast.ClassDef):
                count[st.name] = count.get(st.name, 0) + 1
    for modname, t in trees.items():
        for st in t.body:
            if not isinstance(st, ast.ClassDef) or count.get(st.name) != 1 or st.decorator_list or st.keywords:
                continue
            if any(not (isinstance(b, ast.Name) and b.id == "object") for b in st.bases):
                continue
            if any(q.startswith("%s.%s." % (modname, st.name)) for q in known):
                continue
            methods, ok, props = {}, True, {}
            for m in st.body:
                if isinstance(m, ast.Expr) and isinstance(m.value, ast.Constant):
                    continue
                if isinstance(m, ast.Pass):
                    continue
                if isinstance(m, ast.FunctionDef) and [_dec(d) for d in m.decorator_list] == ["property"] and m.name not in methods and m.name not in props and len(m.args.args) == 1:
                    # a read-only property that returns an expression of the fields
                    pb = [b for b in m.body if not (isinstance(b, ast.Expr) and isinstance(b.value, ast.Constant))]
                    if len(pb) == 1 and isinstance(pb[0], ast.Return) and pb[0].value is not None and not any(isinstance(n, (ast.Await, ast.Yield, ast.YieldFrom, ast.Lambda, ast.NamedExpr)) for n in ast.walk(pb[0].value)) \
                            and all(isinstance(n.func, ast.Name) and n.func.id in IMMUTABLE_BUILTINS for n in ast.walk(pb[0].value) if isinstance(n, ast.Call)):
                        props[m.name] = (m.args.args[0].arg, pb[0].value)
                        continue
                    ok = False
                    break
                if not isinstance(m, ast.FunctionDef) or m.decorator_list or m.name in methods:
                    ok = False
                    break
                if m.name.startswith("__") and m.name.endswith("__") and m.name not in _RECORD_DUNDERS:
                    ok = False
                    break
                methods[m.name] = m
            init = methods.get("__init__")
            if not ok or init is None or not init.args.args:
                continue
            a = init.args
            if a.vararg or a.kwarg or a.kwonlyargs or a.posonlyargs or any(not (isinstance(d, ast.Constant) or (isinstance(d, ast.Attribute) and isinstance(d.value, ast.Name) and d.value.id == "constants")) for d in a.defaults):
                continue
            selfn = a.args[0].arg
            fields = []
            body = [b for b in init.body if not (isinstance(b, ast.Expr) and isinstance(b.value, ast.Constant)) and not isinstance(b, ast.Pass)]
            for b in body:
                if isinstance(b, ast.Assign) and len(b.targets) == 1 and isinstance(b.targets[0], ast.Attribute) and isinstance(b.targets[0].value, ast.Name) \
                        and b.targets[0].value.id == selfn and not any(isinstance(n, (ast.Await, ast.Yield, ast.YieldFrom, ast.Lambda, ast.NamedExpr)) for n in ast.walk(b.value)):
                    # `self` may appear in the value only as `self.<field already bound>`
                    bad = False
                    attr_bases = set(id(n.value) for n in ast.walk(b.value) if isinstance(n, ast.Attribute) and isinstance(n.value, ast.Name) and n.value.id == selfn and n.attr in fields)
                    for n in ast.walk(b.value):
                        if isinstance(n, ast.Name) and n.id == selfn and id(n) not in attr_bases:
                            bad = True
                    if bad:
                        ok = False
                        break
                    fields.append(b.targets[0].attr)
                else:
                    ok = False
                    break
            if not ok or not fields:
                continue
            if any(f in methods or f in props for f in fields):
                continue
            bad_prop = False
            for pn, (psn, pe) in props.items():
                for n in ast.walk(pe):
                    if isinstance(n, ast.Name) and n.id == psn:
                        pass
                    elif isinstance(n, ast.Name) and n.id == "constants" and _module_bindings(t).get("constants", ("",))[0] == "from":
                        pass          # a constant of the package (the using module must import `constants` the same way: checked where it is expanded)
                    elif isinstance(n, ast.Name) and n.id not in IMMUTABLE_BUILTINS:
                        bad_prop = True
                bases_ = set(id(n.value) for n in ast.walk(pe) if isinstance(n, ast.Attribute) and isinstance(n.value, ast.Name) and n.value.id == psn and (n.attr in fields or n.attr in props))
                if any(isinstance(n, ast.Name) and n.id == psn and id(n) not in bases_ for n in ast.walk(pe)):
                    bad_prop = True
            if bad_prop:
                continue
            needs_of = {}
            for name, m in methods.items():
                needs = _foreign_body_ok(m, t, True)
                if needs is not None and not isinstance(m, ast.AsyncFunctionDef):
                    needs_of[name] = (m, frozenset(needs))
            if "__init__" not in needs_of:
                continue
            st._sa_props = props
            RECORDS[st.name] = (st, modname, needs_of, tuple(fields))


def drop_dead_foreign(trees, logs=()):
    """A small public method that every caller had inlined is no longer referenced anywhere in the package: it is removed, so
    that rules about who may write an attribute do not report code that cannot run."""
    refs = set()
    for t in trees.values():
        for n in ast.walk(t):
            if isinstance(n, ast.Attribute):
                refs.add(n.attr)
            elif isinstance(n, ast.Name):
                refs.add(n.id)
            elif isinstance(n, ast.Constant) and isinstance(n.value, str) and n.value.isidentifier():
                refs.add(n.value)
    for name, fn in list(FOREIGN_FUNCS.items()):
        if name in refs or name not in FOREIGN_INLINED:
            continue
        for t in trees.values():
            if any(st is fn for st in t.body):
                t.body[:] = [st for st in t.body if st is not fn]
    for name, fn in list(FOREIGN.items()):
        if name in refs or name not in FOREIGN_INLINED:
            continue
        for t in trees.values():
            for st in t.body:
                if isinstance(st, ast.ClassDef) and any(m is fn for m in st.body):
                    st.body[:] = [m for m in st.body if m is not fn] or [ast.Pass()]
                    for lg in logs[:1]:
                        lg.append("dropped fully inlined method %s.%s" % (st.name, name))


def _module_bindings(t):
    """name -> description of what a module-level name is bound to (imports and definitions)"""
    out = {}
    for st in t.body:
        if isinstance(st, ast.Import):
            for a in st.names:
                out[(a.asname or a.name).split(".")[0]] = ("import", a.name if a.asname else a.name.split(".")[0])
        elif isinstance(st, ast.ImportFrom):
            for a in st.names:
                out[a.asname or a.name] = ("from", (st.module or "").split(".")[-1], a.name)
        elif isinstance(st, (ast.FunctionDef, ast.AsyncFunctionDef, ast.ClassDef)):
            out[st.name] = ("def", st.name)
        elif isinstance(st, ast.Assign):
            for tg in st.targets:
                if isinstance(tg, ast.Name):
                    out[tg.id] = ("assign", ast.dump(st.value))
    return out


def flatten_new_bases(trees, known_classes, log=None):
    """A class that the rule tables know, deriving from a package class they do not know (a base class or mixin introduced to hold
    what two classes had in common), gets the members of that base copied in - methods and class-level assignments it does not define
    itself - and `super().__init__(..)` replaced by the base constructor's body; the unknown base disappears from its bases.  Only
    single inheritance from such a base, a base without `super()` calls of its own, whose methods read no module-level name that means
    something else in the derived class's module.  trees: {modname: ast.Module}; known_classes: set of class names."""
    import copy as _copy
    log = log if log is not None else []
    classes = {}            # name -> (modname, ClassDef) for classes defined once
    count = {}
    for modname, t in trees.items():
        for st in t.body:
            if isinstance(st, ast.ClassDef):
                count[st.name] = count.get(st.name, 0) + 1
                classes[st.name] = (modname, st)
    classes = {k: v for k, v in classes.items() if count[k] == 1}

    def module_bindings(t):
        return _module_bindings(t)

    def _unused(t):
        out = {}
        for st in t.body:
            if isinstance(st, ast.Import):
                for a in st.names:
                    out[(a.asname or a.name).split(".")[0]] = ("import", a.name if a.asname else a.name.split(".")[0])
            elif isinstance(st, ast.ImportFrom):
                for a in st.names:
                    out[a.asname or a.name] = ("from", (st.module or "").split(".")[-1], a.name)
            elif isinstance(st, (ast.FunctionDef, ast.AsyncFunctionDef, ast.ClassDef)):
                out[st.name] = ("def", st.name)
            elif isinstance(st, ast.Assign):
                for tg in st.targets:
                    if isinstance(tg, ast.Name):
                        out[tg.id] = ("assign", ast.dump(st.value))
        return out
    import builtins as _b
    changed = True
    rounds = 0
    while changed and rounds < 4:
        changed = False
        rounds += 1
        for modname, t in trees.items():
            for cls in [st for st in t.body if isinstance(st, ast.ClassDef)]:
                if cls.name not in known_classes:
                    continue
                unknown = [b for b in cls.bases if isinstance(b, ast.Name) and b.id in classes and b.id not in known_classes]
                if len(unknown) != 1:
                    continue
                bmod, base = classes[unknown[0].id]
                if any(isinstance(n, ast.Name) and n.id == "super" for n in ast.walk(base)) or base.keywords or base.decorator_list:
                    continue
                # free names of the base's members must mean the same thing in the derived class's module
                here, there = module_bindings(t), module_bindings(trees[bmod])
                ok = True
                for m in base.body:
                    local = set()
                    for n in ast.walk(m):
                        if isinstance(n, ast.Name) and isinstance(n.ctx, (ast.Store, ast.Del)):
                            local.add(n.id)
                        elif isinstance(n, ast.arg):
                            local.add(n.arg)
                    for n in ast.walk(m):
                        if isinstance(n, ast.Name) and isinstance(n.ctx, ast.Load) and n.id not in local and not hasattr(_b, n.id):
                            if bmod != modname and (n.id not in there or here.get(n.id) != there.get(n.id)) and not (there.get(n.id, ("",))[0] == "def" and here.get(n.id) == ("from", bmod.split(".")[-1], n.id)):
                                ok = False
                if not ok:
                    continue
                own = set()
                for m in cls.body:
                    if isinstance(m, (ast.FunctionDef, ast.AsyncFunctionDef, ast.ClassDef)):
                        own.add(m.name)
                    elif isinstance(m, ast.Assign):
                        for tg in m.targets:
                            if isinstance(tg, ast.Name):
                                own.add(tg.id)
                binit = [m for m in base.body if isinstance(m, ast.FunctionDef) and m.name == "__init__"]
                # super().__init__(...) / super(C, self).__init__(...) / Base.__init__(self, ...) in the derived constructor
                dinit = [m for m in cls.body if isinstance(m, ast.FunctionDef) and m.name == "__init__"]
                if binit and not dinit:
                    pass                      # the base constructor is simply inherited: copied below
                elif binit:
                    bi, di = binit[0], dinit[0]
                    if bi.args.vararg or bi.args.kwarg or bi.args.kwonlyargs or any(isinstance(n, ast.Return) and n.value is not None for n in ast.walk(bi)):
                        continue
                    sites = []
                    for blk in _all_blocks(di):
                        for k, st in enumerate(blk):
                            c = st.value if isinstance(st, ast.Expr) else None
                            if isinstance(c, ast.Call) and isinstance(c.func, ast.Attribute) and c.func.attr == "__init__":
                                r = c.func.value
                                if isinstance(r, ast.Call) and isinstance(r.func, ast.Name) and r.func.id == "super":
                                    sites.append((blk, k, c, c.args))
                                elif isinstance(r, ast.Name) and r.id == base.name and c.args:
                                    sites.append((blk, k, c, c.args[1:]))
                    if len(sites) != 1:
                        continue
                    blk, k, c, args = sites[0]
                    ps = [x.arg for x in bi.args.args]
                    nd = len(bi.args.defaults)
                    bind = {}
                    okb = not c.keywords or all(kw.arg in ps for kw in c.keywords)
                    for j, pn in enumerate(ps[1:]):
                        if j < len(args):
                            bind[pn] = args[j]
                    for kw in c.keywords:
                        if kw.arg:
                            bind[kw.arg] = kw.value
                    for j, pn in enumerate(ps):
                        if pn not in bind and j >= len(ps) - nd and j > 0:
                            bind[pn] = bi.args.defaults[j - (len(ps) - nd)]
                    if not okb or set(bind) != set(ps[1:]) or any(isinstance(a, ast.Starred) for a in args):
                        continue
                    body = _copy.deepcopy([x for x in bi.body if not (isinstance(x, ast.Expr) and isinstance(x.value, ast.Constant) and isinstance(x.value.value, str))])
                    dself = di.args.args[0].arg
                    pre = []
                    ren = {ps[0]: dself}
                    for pn in ps[1:]:
                        tmp = "_b_%s" % pn
                        ren[pn] = tmp
                        a = ast.Assign(targets=[ast.Name(id=tmp, ctx=ast.Store())], value=bind[pn])
                        ast.copy_location(a, blk[k])
                        ast.fix_missing_locations(a)
                        pre.append(a)
                    for x in body:
                        for n in ast.walk(x):
                            if isinstance(n, ast.Name) and n.id in ren:
                                n.id = ren[n.id]
                    blk[k:k + 1] = pre + (body or [])
                    if not blk:
                        blk.append(ast.Pass())
                elif dinit:
                    # no base constructor: a `super().__init__()` call (object's) does nothing
                    for blk in _all_blocks(dinit[0]):
                        for k, st in enumerate(list(blk)):
                            c = st.value if isinstance(st, ast.Expr) else None
                            if isinstance(c, ast.Call) and isinstance(c.func, ast.Attribute) and c.func.attr == "__init__" and isinstance(c.func.value, ast.Call) \
                                    and isinstance(c.func.value.func, ast.Name) and c.func.value.func.id == "super" and not c.args:
                                blk[k:k + 1] = [ast.copy_location(ast.Pass(), st)]
                inherited = []
                for m in base.body:
                    if isinstance(m, (ast.FunctionDef, ast.AsyncFunctionDef)):
                        if m.name in own or (m.name == "__init__" and dinit):
                            continue
                        inherited.append(_copy.deepcopy(m))
                    elif isinstance(m, ast.Assign) and all(isinstance(tg, ast.Name) and tg.id not in own for tg in m.targets):
                        inherited.append(_copy.deepcopy(m))
                # methods go after the class docstring; properties/methods first so that definitions precede uses of class-level names
                pos = 1 if cls.body and isinstance(cls.body[0], ast.Expr) and isinstance(cls.body[0].value, ast.Constant) else 0
                cls.body[pos:pos] = inherited
                cls.bases = [b for b in cls.bases if b is not unknown[0]] + [_copy.deepcopy(b) for b in base.bases if not (isinstance(b, ast.Name) and b.id == "object" and len(cls.bases) > 1)]
                if not cls.bases:
                    cls.bases = [ast.Name(id="object", ctx=ast.Load())]
                ast.fix_missing_locations(cls)
                log.append(("flattened", "%s.%s" % (modname, cls.name), base.name, ""))
                changed = True
    # a flattened base that nothing refers to any more is removed
    for name, (bmod, base) in list(classes.items()):
        if name in known_classes or not any(l[0] == "flattened" and l[2] == name for l in log):
            continue
        refs = 0
        for t in trees.values():
            for n in ast.walk(t):
                if isinstance(n, ast.Name) and n.id == name:
                    refs += 1
                elif isinstance(n, ast.Attribute) and n.attr == name:
                    refs += 1
        if refs == 0:
            tb = trees[bmod]
            tb.body[:] = [st for st in tb.body if st is not base]
            for t in trees.values():
                for st in t.body:
                    if isinstance(st, ast.ImportFrom):
                        st.names[:] = [a for a in st.names if a.name != name] or st.names
    return log


def build_ret_arity(trees):
    """name -> n when every definition of that name in the package (the sync and the async twin, say) returns tuple displays of n elements on
    every path, or hands on the result of such a function."""
    trees = list(trees)

    def arity(fn, known):
        if any(isinstance(n, (ast.Yield, ast.YieldFrom)) for n, _ins in _fn_nodes(fn)):
            return None
        rets = [n for n, _ins in _fn_nodes(fn) if isinstance(n, ast.Return)]
        ar = set()
        for r in rets:
            v = r.value.value if isinstance(r.value, ast.Await) else r.value
            if isinstance(v, ast.Tuple) and not any(isinstance(x, ast.Starred) for x in v.elts):
                ar.add(len(v.elts))
            elif isinstance(v, ast.Call) and isinstance(v.func, ast.Attribute) and v.func.attr in known:
                ar.add(known[v.func.attr])
            elif isinstance(v, ast.Name) and v.id not in [x.arg for x in fn.args.posonlyargs + fn.args.args + fn.args.kwonlyargs]:
                # a local bound only to results of such functions / to displays of n elements
                vals = []
                okv = True
                for n, _ins in _fn_nodes(fn):
                    if isinstance(n, ast.Assign) and any(isinstance(x, ast.Name) and x.id == v.id for t_ in n.targets for x in ast.walk(t_)):
                        if len(n.targets) == 1 and isinstance(n.targets[0], ast.Name):
                            vals.append(n.value.value if isinstance(n.value, ast.Await) else n.value)
                        else:
                            okv = False
                    elif isinstance(n, (ast.AugAssign, ast.For, ast.AsyncFor, ast.With, ast.AsyncWith, ast.NamedExpr, ast.comprehension)) and any(isinstance(x, ast.Name) and x.id == v.id and isinstance(x.ctx, ast.Store) for x in ast.walk(n.target if hasattr(n, "target") else n)):
                        okv = False
                sizes = set()
                for e in vals:
                    if isinstance(e, ast.Tuple) and not any(isinstance(x, ast.Starred) for x in e.elts):
                        sizes.add(len(e.elts))
                    elif isinstance(e, ast.Call) and isinstance(e.func, ast.Attribute) and e.func.attr in known:
                        sizes.add(known[e.func.attr])
                    else:
                        sizes.add(None)
                ar.add(next(iter(sizes)) if okv and vals and len(sizes) == 1 else None)
            else:
                ar.add(None)
        def never_falls_off(body):
            if always_leaves_function(body):
                return True
            last = body[-1] if body else None
            if isinstance(last, ast.While) and _is_const_true(last.test) and not _own_breaks(last.body) and not last.orelse:
                return True
            if isinstance(last, (ast.With, ast.AsyncWith)):
                return never_falls_off(last.body)
            return False
        if rets and len(ar) == 1 and None not in ar and never_falls_off(fn.body):
            return next(iter(ar))
        return None
    out = {}
    for _round in range(3):
        per = {}
        for t in trees:
            for fn in ast.walk(t):
                if isinstance(fn, (ast.FunctionDef, ast.AsyncFunctionDef)):
                    per.setdefault(fn.name, set()).add(arity(fn, out))
        out = {k: next(iter(v)) for k, v in per.items() if len(v) == 1 and None not in v and k not in _CONTAINER_METHODS}
    RET_ARITY_CLS.clear()
    cseen = {}
    for t in trees:
        for cls in t.body:
            if isinstance(cls, ast.ClassDef):
                cseen[cls.name] = cseen.get(cls.name, 0) + 1
    for t in trees:
        for cls in t.body:
            if isinstance(cls, ast.ClassDef) and cseen[cls.name] == 1:
                for fn in cls.body:
                    if isinstance(fn, (ast.FunctionDef, ast.AsyncFunctionDef)):
                        if any(isinstance(n, (ast.Yield, ast.YieldFrom)) for n, _ins in _fn_nodes(fn)):
                            continue
                        rets = [n for n, _ins in _fn_nodes(fn) if isinstance(n, ast.Return)]
                        ar = set(len(r.value.elts) if isinstance(r.value, ast.Tuple) and not any(isinstance(x, ast.Starred) for x in r.value.elts) else None for r in rets)
                        if rets and len(ar) == 1 and None not in ar and always_leaves_function(fn.body):
                            RET_ARITY_CLS[(cls.name, fn.name)] = next(iter(ar))
    return out


def build_nonnull_list_params(trees):
    trees = list(trees)
    defs = {}
    for t in trees:
        for fn in ast.walk(t):
            if isinstance(fn, (ast.FunctionDef, ast.AsyncFunctionDef)) and fn.name.startswith("_") and not fn.name.startswith("__"):
                defs.setdefault(fn.name, []).append(fn)
    # methods vs functions: a def directly inside a class takes self
    in_class = set()
    for t in trees:
        for cls in ast.walk(t):
            if isinstance(cls, ast.ClassDef):
                for m in cls.body:
                    if isinstance(m, (ast.FunctionDef, ast.AsyncFunctionDef)) and not any(_dec(d) == "staticmethod" for d in m.decorator_list):
                        in_class.add(id(m))
    verdict = {}

    def const_display(e):
        return isinstance(e, (ast.List, ast.Tuple)) and all((isinstance(x, ast.Constant) and x.value is not None) or _dump(x) in NONNULL_CONSTS for x in e.elts)
    for t in trees:
        for c in ast.walk(t):
            if not isinstance(c, ast.Call):
                continue
            name = c.func.attr if isinstance(c.func, ast.Attribute) else c.func.id if isinstance(c.func, ast.Name) else None
            if name not in defs:
                continue
            for fn in defs[name]:
                ps = [x.arg for x in fn.args.args]
                if id(fn) in in_class and isinstance(c.func, ast.Attribute):
                    ps = ps[1:]
                if fn.args.vararg or fn.args.kwarg or any(isinstance(a, ast.Starred) for a in c.args) or any(k.arg is None for k in c.keywords):
                    for p_ in ps:
                        verdict[(name, p_)] = False
                    continue
                bound = dict(zip(ps, c.args))
                for k in c.keywords:
                    bound[k.arg] = k.value
                for p_ in ps:
                    if p_ in bound:
                        ok = const_display(bound[p_])
                        verdict[(name, p_)] = verdict.get((name, p_), True) and ok
                    else:
                        verdict[(name, p_)] = False          # a default: not looked at
    # a name used as a value (passed around) could be called from anywhere
    for t in trees:
        for n in ast.walk(t):
            if isinstance(n, ast.Attribute) and n.attr in defs and not isinstance(getattr(n, "ctx", None), ast.Store):
                pass
    return set(k for k, v in verdict.items() if v)


def build_class_methods(trees):
    seen, out = {}, {}
    for t in trees:
        for st in t.body:
            if isinstance(st, ast.ClassDef):
                seen[st.name] = seen.get(st.name, 0) + 1
                tab = {}
                for m in st.body:
                    if isinstance(m, (ast.FunctionDef, ast.AsyncFunctionDef)):
                        a = m.args
                        if a.vararg or a.kwarg or a.posonlyargs or a.kwonlyargs:
                            continue
                        decs = [_dec(d) for d in m.decorator_list]
                        if "property" in decs or any(d.endswith("setter") for d in decs):
                            continue
                        ps = [x.arg for x in a.args]
                        tab[m.name] = (ps if "staticmethod" in decs else ps[1:], len(a.defaults))
                out[st.name] = tab
    return {k: v for k, v in out.items() if seen[k] == 1}


# ---------------------------------------------------------------------------------------------------------------------
# small helpers
def _fn_nodes(fn):
    """Walk a function body without entering nested defs / lambdas; yields (node, in_scope) where in_scope is False inside
    comprehensions (their own scope; evaluated lazily/repeatedly)."""
    stack = [(s, True) for s in reversed(fn.body)]
    while stack:
        n, ins = stack.pop()
        yield n, ins
        if isinstance(n, (ast.FunctionDef, ast.AsyncFunctionDef, ast.ClassDef, ast.Lambda)):
            continue
        if isinstance(n, (ast.ListComp, ast.SetComp, ast.DictComp, ast.GeneratorExp)):
            # the first iterable is evaluated at once, in the enclosing scope; everything else belongs to the comprehension
            first = n.generators[0].iter
            for c in reversed(list(ast.iter_child_nodes(n))):
                if isinstance(c, ast.comprehension):
                    for cc in reversed(list(ast.iter_child_nodes(c))):
                        stack.append((cc, ins and cc is first))
                else:
                    stack.append((c, False))
            continue
        for c in reversed(list(ast.iter_child_nodes(n))):
            stack.append((c, ins))


def _names_captured(fn):
    """Names referenced inside nested defs / lambdas / comprehensions (never touched by FWD)."""
    out = set()
    for n, ins in _fn_nodes(fn):
        if isinstance(n, (ast.FunctionDef, ast.AsyncFunctionDef, ast.ClassDef, ast.Lambda)):
            for m in ast.walk(n):
                if isinstance(m, ast.Name):
                    out.add(m.id)
        elif not ins and isinstance(n, ast.Name):
            out.add(n.id)
        elif isinstance(n, (ast.Global, ast.Nonlocal)):
            out.update(n.names)
    return out


def _params(fn):
    a = fn.args
    out = [x.arg for x in a.posonlyargs + a.args + a.kwonlyargs]
    if a.vararg:
        out.append(a.vararg.arg)
    if a.kwarg:
        out.append(a.kwarg.arg)
    return out


def _blocks_of(st):
    """Statement lists directly owned by a compound statement."""
    out = []
    for fld in ("body", "orelse", "finalbody"):
        b = getattr(st, fld, None)
        if isinstance(b, list) and b and isinstance(b[0], ast.stmt):
            out.append(b)
    for h in getattr(st, "handlers", []) or []:
        out.append(h.body)
    for c in getattr(st, "cases", []) or []:
        out.append(c.body)
    return out


def _all_blocks(fn):
    """Every statement list of the function (not entering nested defs), outermost first."""
    out = []
    stack = [fn.body]
    while stack:
        b = stack.pop()
        out.append(b)
        for st in b:
            if isinstance(st, (ast.FunctionDef, ast.AsyncFunctionDef, ast.ClassDef)):
                continue
            stack.extend(_blocks_of(st))
    return out


def _has_call(e):
    for n in ast.walk(e):
        if isinstance(n, (ast.Call, ast.Await, ast.Yield, ast.YieldFrom, ast.NamedExpr)):
            return True
    return False


def f_is_stable_attr(fc, f):
    """`self.<attr>.<method>` with <attr> bound by the constructor only: looking the method up has no effect and does not depend on when it is done"""
    return isinstance(f, ast.Attribute) and isinstance(f.value, ast.Attribute) and f.value.attr in fc.stable_attrs


def _is_const_true(e):
    return isinstance(e, ast.Constant) and bool(e.value) is True and e.value is not None


def _is_chain(e):
    while isinstance(e, ast.Attribute):
        e = e.value
    return isinstance(e, ast.Name)


_CUR_MODNAME = [None]       # the module being canonicalised
_CUR_SENTINELS = set()      # the markers of the module being canonicalised
_CUR_CLEAN_NAMES = set()    # names of the function being canonicalised that cannot hold a marker


def _fold_test(t):
    """Constant sub-tests of a condition (a helper inlined with literal arguments: `'list' is None or path`) are evaluated; only
    the truth value of the whole matters.  Returns `t` itself when nothing changes."""
    if isinstance(t, ast.UnaryOp) and isinstance(t.op, ast.Not):
        o = _fold_test(t.operand)
        if isinstance(o, ast.Constant):
            return ast.copy_location(ast.Constant(value=not o.value), t)
        if o is not t.operand:
            return ast.copy_location(ast.UnaryOp(op=ast.Not(), operand=o), t)
        return t
    if isinstance(t, ast.Compare) and len(t.ops) == 1 and isinstance(t.ops[0], (ast.Is, ast.IsNot)) and _CUR_SENTINELS:
        a, b = t.left, t.comparators[0]
        sa_, sb_ = isinstance(a, ast.Name) and a.id in _CUR_SENTINELS, isinstance(b, ast.Name) and b.id in _CUR_SENTINELS
        if sa_ or sb_:
            if sa_ and sb_:
                same = a.id == b.id
            else:
                other = b if sa_ else a
                # the marker only ever enters a function as the default of a parameter (checked per module): a literal, or a name that is
                # neither such a parameter nor assigned from one, cannot be it
                same = False if isinstance(other, ast.Constant) or (isinstance(other, ast.Name) and other.id in _CUR_CLEAN_NAMES) else None
            if same is not None:
                return ast.copy_location(ast.Constant(value=same if isinstance(t.ops[0], ast.Is) else not same), t)
    if isinstance(t, ast.Compare) and len(t.ops) == 1 and isinstance(t.left, ast.Call) and isinstance(t.left.func, ast.Name) and t.left.func.id == "len" and len(t.left.args) == 1 \
            and not t.left.keywords and _is_chain(t.left.args[0]) and isinstance(t.comparators[0], ast.Constant) and type(t.comparators[0].value) is int:
        # `len(x) == 0` is `not x`, `len(x) != 0` / `len(x) > 0` / `len(x) >= 1` is `x`   (a sized container's truth value is its being non-empty)
        k, op = t.comparators[0].value, t.ops[0]
        if (k == 0 and isinstance(op, ast.Eq)) or (k == 1 and isinstance(op, ast.Lt)) or (k == 0 and isinstance(op, ast.LtE)):
            return ast.copy_location(ast.UnaryOp(op=ast.Not(), operand=t.left.args[0]), t)
        if (k == 0 and isinstance(op, (ast.NotEq, ast.Gt))) or (k == 1 and isinstance(op, ast.GtE)):
            return t.left.args[0]
    if isinstance(t, ast.Compare) and len(t.ops) == 1 and isinstance(t.ops[0], (ast.Is, ast.IsNot)):
        a, b = t.left, t.comparators[0]
        for x, y in ((a, b), (b, a)):
            if isinstance(x, ast.Constant) and x.value is None and _dump(y) in NONNULL_CONSTS:
                # `constants.LIST is None`: a package constant bound once to a literal other than None
                return ast.copy_location(ast.Constant(value=isinstance(t.ops[0], ast.IsNot)), t)
    if isinstance(t, (ast.Tuple, ast.List)) and not any(isinstance(x, ast.Starred) for x in t.elts) and not any(_has_call(x) for x in t.elts):
        return ast.copy_location(ast.Constant(value=bool(t.elts)), t)      # a display is true iff it has elements
    if isinstance(t, ast.Compare) and len(t.ops) == 1 and isinstance(t.left, ast.Constant) and isinstance(t.comparators[0], ast.Constant):
        a, b, op = t.left.value, t.comparators[0].value, t.ops[0]
        if isinstance(op, (ast.Is, ast.IsNot)) and (a is None or b is None or isinstance(a, bool) or isinstance(b, bool)):
            v = (a is b) if (a is None or b is None or (isinstance(a, bool) and isinstance(b, bool))) else False
            return ast.copy_location(ast.Constant(value=v if isinstance(op, ast.Is) else not v), t)
        if isinstance(op, (ast.Eq, ast.NotEq)) and type(a) is type(b):
            return ast.copy_location(ast.Constant(value=(a == b) if isinstance(op, ast.Eq) else (a != b)), t)
        return t
    if isinstance(t, ast.Call) and isinstance(t.func, ast.Name) and t.func.id == "bool" and len(t.args) == 1 and not t.keywords and not isinstance(t.args[0], ast.Starred):
        return _fold_test(t.args[0])          # only the truth value of a test matters
    if isinstance(t, ast.BoolOp):
        is_or = isinstance(t.op, ast.Or)
        vals = [_fold_test(v) for v in t.values]
        out = []
        changed = any(a is not b for a, b in zip(vals, t.values))
        for v in vals:
            if isinstance(v, ast.Constant):
                if bool(v.value) == is_or:
                    # decides the whole condition; what precedes has been evaluated already
                    out.append(v)
                    changed = changed or v is not vals[-1]
                    break
                changed = True          # neutral element
                continue
            out.append(v)
        if out and isinstance(out[-1], ast.Constant) and len(out) > 1 and not any(_has_call(x) for x in out[:-1]):
            out = [out[-1]]
            changed = True
        if not changed:
            return t
        if not out:
            return ast.copy_location(ast.Constant(value=not is_or), t)
        if len(out) == 1:
            return out[0]
        return ast.copy_location(ast.BoolOp(op=t.op, values=out), t)
    return t


def always_exits(stmts):
    """Every execution of the statement list ends in return / raise / break / continue (never falls through)."""
    if not stmts:
        return False
    last = stmts[-1]
    if isinstance(last, (ast.Return, ast.Raise, ast.Break, ast.Continue)):
        return True
    if isinstance(last, ast.If):
        return always_exits(last.body) and always_exits(last.orelse)
    if isinstance(last, (ast.With, ast.AsyncWith)):
        return False    # a context manager may swallow the exception
    return False


def always_leaves_function(stmts):
    """Ends in return / raise on every path (break / continue do not count)."""
    if not stmts:
        return False
    last = stmts[-1]
    if isinstance(last, (ast.Return, ast.Raise)):
        return True
    if isinstance(last, ast.If):
        return always_leaves_function(last.body) and always_leaves_function(last.orelse)
    if isinstance(last, (ast.With, ast.AsyncWith)) and all(_plain_lock_item(it) for it in last.items):
        return always_leaves_function(last.body)          # (a lock does not swallow exceptions, the block is left the way its body is)
    return False


def _plain_lock_item(it):
    e = it.context_expr
    return it.optional_vars is None and isinstance(e, ast.Attribute) and isinstance(e.value, ast.Name) and e.attr.endswith("lock")


def negate(test):
    if isinstance(test, ast.UnaryOp) and isinstance(test.op, ast.Not):
        return test.operand
    if isinstance(test, ast.BoolOp) and all(_negative(v) for v in test.values):
        other = ast.And() if isinstance(test.op, ast.Or) else ast.Or()
        return ast.copy_location(ast.BoolOp(op=other, values=[negate(v) for v in test.values]), test)
    if isinstance(test, ast.Compare) and len(test.ops) == 1:
        flip = {ast.Eq: ast.NotEq, ast.NotEq: ast.Eq, ast.Is: ast.IsNot, ast.IsNot: ast.Is, ast.In: ast.NotIn, ast.NotIn: ast.In}
        t = flip.get(type(test.ops[0]))
        if t is None and any(_is_intlike(x) for x in (test.left, test.comparators[0])):
            # order comparisons are only flipped when one side is certainly an int (len(..) or an int literal): no NaN case
            t = {ast.Lt: ast.GtE, ast.GtE: ast.Lt, ast.Gt: ast.LtE, ast.LtE: ast.Gt}.get(type(test.ops[0]))
        if t is not None:
            return ast.copy_location(ast.Compare(left=test.left, ops=[t()], comparators=test.comparators), test)
    return ast.copy_location(ast.UnaryOp(op=ast.Not(), operand=test), test)


def _negative(test):
    """A test written in negative form whose negation can be written without `not`."""
    if isinstance(test, ast.UnaryOp) and isinstance(test.op, ast.Not):
        return True
    if isinstance(test, ast.BoolOp):
        return all(_negative(v) for v in test.values)
    if isinstance(test, ast.Compare) and len(test.ops) == 1:
        if isinstance(test.ops[0], (ast.NotEq, ast.IsNot, ast.NotIn)):
            return True
        if isinstance(test.ops[0], (ast.GtE, ast.LtE)) and any(_is_intlike(x) for x in (test.left, test.comparators[0])):
            return True
    return False


def _simple_target(t):
    """A name or an attribute chain over a name (evaluating it has no effect)."""
    while isinstance(t, ast.Attribute):
        t = t.value
    return isinstance(t, ast.Name)


def _is_intlike(e):
    if isinstance(e, ast.Constant) and isinstance(e.value, int) and not isinstance(e.value, bool):
        return True
    return isinstance(e, ast.Call) and isinstance(e.func, ast.Name) and e.func.id == "len" and len(e.args) == 1 and not e.keywords


def _size(stmts):
    n = 0
    for st in stmts:
        n += 1
        for b in _blocks_of(st):
            n += _size(b)
    return n


def _dump(n):
    return ast.dump(n, annotate_fields=False, include_attributes=False)


# ---------------------------------------------------------------------------------------------------------------------
# evaluation order
def eval_order(node):
    """Sub-expressions of a statement header / expression in evaluation order, as (node, eager).  eager is False for
    operands that are evaluated conditionally (short-circuit operands after the first, arms of a conditional expression,
    comprehension bodies)."""
    def ex(e, eager):
        if e is None:
            return
        if isinstance(e, ast.BoolOp):
            for i, v in enumerate(e.values):
                for x in ex(v, eager and i == 0):
                    yield x
            yield e, eager
        elif isinstance(e, ast.IfExp):
            for x in ex(e.test, eager):
                yield x
            for x in ex(e.body, False):
                yield x
            for x in ex(e.orelse, False):
                yield x
            yield e, eager
        elif isinstance(e, (ast.ListComp, ast.SetComp, ast.DictComp, ast.GeneratorExp)):
            for x in ex(e.generators[0].iter, eager):
                yield x
            for n in ast.walk(e):
                if n is not e and not any(n is m for m in ast.walk(e.generators[0].iter)):
                    if isinstance(n, ast.expr):
                        yield n, False
            yield e, eager
        elif isinstance(e, ast.Lambda):
            yield e, eager
        elif isinstance(e, ast.Compare):
            for x in ex(e.left, eager):
                yield x
            for i, c in enumerate(e.comparators):
                for x in ex(c, eager and i == 0):
                    yield x
            yield e, eager
        elif isinstance(e, ast.Call):
            for x in ex(e.func, eager):
                yield x
            for a in e.args:
                for x in ex(a, eager):
                    yield x
            for k in e.keywords:
                for x in ex(k.value, eager):
                    yield x
            yield e, eager
        elif isinstance(e, ast.Dict):
            for k, v in zip(e.keys, e.values):
                for x in ex(k, eager):
                    yield x
                for x in ex(v, eager):
                    yield x
            yield e, eager
        else:
            for c in ast.iter_child_nodes(e):
                if isinstance(c, ast.expr):
                    for x in ex(c, eager):
                        yield x
            yield e, eager

    if isinstance(node, ast.Assign):
        for x in ex(node.value, True):
            yield x
        for t in node.targets:
            for x in ex(t, True):
                yield x
    elif isinstance(node, ast.AugAssign):
        # target is loaded first; a Name target cannot be affected by the value's evaluation (checked by the caller)
        for x in ex(node.target, True):
            yield x
        for x in ex(node.value, True):
            yield x
    elif isinstance(node, ast.AnnAssign):
        for x in ex(node.value, True):
            yield x
        for x in ex(node.target, True):
            yield x
    elif isinstance(node, (ast.Expr, ast.Return)):
        for x in ex(node.value, True):
            yield x
    elif isinstance(node, ast.Raise):
        for x in ex(node.exc, True):
            yield x
        for x in ex(node.cause, True):
            yield x
    elif isinstance(node, ast.Assert):
        for x in ex(node.test, True):
            yield x
        for x in ex(node.msg, False):
            yield x
    elif isinstance(node, ast.Delete):
        for t in node.targets:
            for x in ex(t, True):
                yield x
    elif isinstance(node, ast.If):
        for x in ex(node.test, True):
            yield x
    elif isinstance(node, (ast.For, ast.AsyncFor)):
        for x in ex(node.iter, True):
            yield x
    elif isinstance(node, (ast.With, ast.AsyncWith)):
        for it in node.items:
            for x in ex(it.context_expr, True):
                yield x
    elif isinstance(node, ast.expr):
        for x in ex(node, True):
            yield x


def _inert_call(c):
    """Logging calls and pure builtins over their arguments: no effect on anything the analysis models."""
    f = c.func
    if isinstance(f, ast.Attribute) and isinstance(f.value, ast.Name) and f.value.id == "exceptions" and f.attr[:1].isupper() and f.attr.endswith(("Error", "Exception")):
        return True          # building an exception object of the package
    if isinstance(f, ast.Attribute) and f.attr == "format" and isinstance(f.value, ast.Constant) and isinstance(f.value.value, str):
        return True
    if isinstance(f, ast.Name) and f.id in PURE_BUILTINS and not c.keywords:
        return True
    while isinstance(f, ast.Attribute):
        f = f.value
    return isinstance(f, ast.Name) and f.id in INERT_RECEIVERS


def _reads(e):
    """(names read, reads mutable state: attribute/subscript loads or any call)."""
    names, heap = set(), False
    stack = [e]
    while stack:
        n = stack.pop()
        if isinstance(n, ast.Call) and _exc_ctor(n):
            # building an exception object of the package reads nothing but its arguments
            stack.extend(n.args)
            stack.extend(k.value for k in n.keywords)
            continue
        if isinstance(n, ast.Name):
            names.add(n.id)
        elif isinstance(n, (ast.Attribute, ast.Subscript, ast.Call, ast.Await)):
            heap = True
        stack.extend(ast.iter_child_nodes(n))
    return names, heap


def _exc_ctor(c):
    f = c.func
    return isinstance(f, ast.Attribute) and isinstance(f.value, ast.Name) and f.value.id == "exceptions" and f.attr[:1].isupper() and f.attr.endswith(("Error", "Exception"))


def _has_effect(e):
    for n in ast.walk(e):
        if isinstance(n, (ast.Await, ast.Yield, ast.YieldFrom, ast.NamedExpr)):
            return True
        if isinstance(n, ast.Call) and not _inert_call(n):
            return True
    return False


def _stmt_effects(st):
    """(names stored, has heap write or non-inert call) of a statement, including nested blocks."""
    stores, effect = set(), False
    for n in ast.walk(st):
        if isinstance(n, ast.Name) and isinstance(n.ctx, (ast.Store, ast.Del)):
            stores.add(n.id)
        elif isinstance(n, (ast.Attribute, ast.Subscript)) and isinstance(n.ctx, (ast.Store, ast.Del)):
            effect = True
        elif isinstance(n, ast.Call) and not _inert_call(n):
            effect = True
        elif isinstance(n, (ast.Await, ast.Yield, ast.YieldFrom)):
            effect = True
        elif isinstance(n, (ast.Return, ast.Raise, ast.Break, ast.Continue)):
            effect = True
    return stores, effect


# ---------------------------------------------------------------------------------------------------------------------
class FuncCanon(object):
    def __init__(self, fn, modconsts, stats, clsmethods=None, attrtypes=None, stable_attrs=None):
        self.clsmethods = clsmethods or {}
        self.attrtypes = attrtypes or {}     # instance attribute -> package class it is always constructed from
        self.stable_attrs = stable_attrs or set()     # instance attributes bound in __init__ only: `self.X` names the same object for the object's life
        self.fn = fn
        self.modconsts = modconsts       # names of imported modules / module-level names (stable operands)
        self.stats = stats
        self.fresh = set()               # names introduced by the inliner

    def bump(self, k):
        self.stats[k] = self.stats.get(k, 0) + 1

    # -- scope facts -----------------------------------------------------------------------------------------------
    def scan(self):
        self.params = set(_params(self.fn))
        self.captured = _names_captured(self.fn)
        _CUR_CLEAN_NAMES.clear()
        if _CUR_SENTINELS:
            a = self.fn.args
            tainted = set()
            for prm, d in zip(reversed(a.args), reversed(a.defaults)):
                if isinstance(d, ast.Name) and d.id in _CUR_SENTINELS:
                    tainted.add(prm.arg)
            names = set(self.params)
            assigns = {}
            for n, _ins in _fn_nodes(self.fn):
                if isinstance(n, ast.Assign) and len(n.targets) == 1 and isinstance(n.targets[0], ast.Name):
                    assigns.setdefault(n.targets[0].id, []).append(n.value)
                elif isinstance(n, ast.Name) and isinstance(n.ctx, ast.Store):
                    assigns.setdefault(n.id, [])
            for _round in range(3):
                for nm, vals in assigns.items():
                    if nm in self.params:
                        continue
                    stores = [x for x, _i in _fn_nodes(self.fn) if isinstance(x, ast.Name) and x.id == nm and isinstance(x.ctx, ast.Store)]
                    if len(stores) != len(vals) or any(any(isinstance(y, ast.Name) and (y.id in tainted or y.id in _CUR_SENTINELS) for y in ast.walk(v)) for v in vals):
                        tainted.add(nm)
            _CUR_CLEAN_NAMES.update(n for n in (set(self.params) | set(assigns)) if n not in tainted and n not in self.captured)
        self.stores, self.loads = {}, {}
        self.loop_stored = set()
        for st in ast.walk(self.fn):
            if isinstance(st, (ast.While, ast.For, ast.AsyncFor)):
                for n in ast.walk(st):
                    if isinstance(n, ast.Name) and isinstance(n.ctx, (ast.Store, ast.Del)):
                        self.loop_stored.add(n.id)
        for n, ins in _fn_nodes(self.fn):
            if isinstance(n, ast.Name):
                if isinstance(n.ctx, ast.Load):
                    self.loads.setdefault(n.id, []).append(n)
                else:
                    self.stores.setdefault(n.id, []).append(n)
            elif isinstance(n, ast.ExceptHandler) and n.name:
                self.stores.setdefault(n.name, []).append(n)
            elif isinstance(n, (ast.Import, ast.ImportFrom)):
                for a in n.names:
                    self.stores.setdefault((a.asname or a.name).split(".")[0], []).append(n)

    def _self_name(self):
        a = self.fn.args
        if a.args and not any(_dec(d) in ("staticmethod", "classmethod") for d in self.fn.decorator_list):
            return a.args[0].arg
        return None

    def stable_name(self, name):
        """A name whose value cannot change while the function runs, as far as the function itself is concerned."""
        if name in self.captured:
            return False
        ns = len(self.stores.get(name, ()))
        if name in self.params:
            return ns == 0
        if ns == 0:
            return True          # module-level name / builtin
        if ns == 1 and name not in self.loop_stored and isinstance(self.stores[name][0], ast.Name):
            return True          # a local bound once, outside any loop: every later read sees that one value
        return False

    def pure_stable(self, e):
        """e is call-free (up to pure builtins) and reads only stable names and module constants."""
        for n in ast.walk(e):
            if isinstance(n, ast.Name):
                if not self.stable_name(n.id) and n.id not in IMMUTABLE_BUILTINS:
                    return False
            elif isinstance(n, ast.Attribute):
                # module attributes such as constants.CLSE; `self.X` for an attribute that only the constructor binds
                if isinstance(n.value, ast.Name) and self._self_name() == n.value.id and n.attr in self.stable_attrs and self.fn.name != "__init__" and not self.stores.get(n.value.id):
                    continue
                if not (isinstance(n.value, ast.Name) and n.value.id in self.modconsts and n.value.id not in self.params and not self.stores.get(n.value.id)):
                    return False
            elif isinstance(n, ast.Call):
                if not (isinstance(n.func, ast.Name) and n.func.id in IMMUTABLE_BUILTINS and not self.stores.get(n.func.id) and not n.keywords):
                    return False
            elif isinstance(n, (ast.Constant, ast.BinOp, ast.UnaryOp, ast.Tuple, ast.operator, ast.unaryop, ast.expr_context, ast.Compare, ast.cmpop, ast.BoolOp, ast.boolop)):
                pass
            elif isinstance(n, ast.Subscript):
                return False
            else:
                return False
        return True

    # -- driver ----------------------------------------------------------------------------------------------------
    def run(self):
        for _ in range(40):
            self.scan()
            if not (self.pass_blocks()):
                break

    def websplit(self):
        """A local name reused for independent values (every read follows, in the same block, the assignment it belongs to - a plain assignment
        or a position of a flat tuple target - with no other assignment of the name in between): each assignment-and-its-reads gets its own
        name, so the single-assignment rewrites apply to each of them."""
        def bound_here(st, v):
            """the Name node through which the simple statement st binds v (plain or flat-tuple assignment), else None"""
            if not (isinstance(st, ast.Assign) and len(st.targets) == 1):
                return None
            tg = st.targets[0]
            if isinstance(tg, ast.Name):
                return tg if tg.id == v else None
            if isinstance(tg, (ast.Tuple, ast.List)) and all(isinstance(x, ast.Name) for x in tg.elts):
                hits = [x for x in tg.elts if x.id == v]
                return hits[0] if len(hits) == 1 else None
            return None
        for v, stores in sorted(self.stores.items()):
            if len(stores) < 2 or v in self.params or v in self.captured or v == "_":
                continue
            if not all(isinstance(s_, ast.Name) for s_ in stores):
                continue
            loads = self.loads.get(v, [])
            webs = []          # (store Name node, [load nodes])
            claimed = set()
            plain = 0
            ok = True
            for blk in _all_blocks(self.fn):
                for k, st in enumerate(blk):
                    node = bound_here(st, v)
                    if node is None:
                        continue
                    plain += 1
                    if any(isinstance(n, ast.Name) and n.id == v for n in ast.walk(st.value)):
                        ok = False
                    region = []
                    for nxt in blk[k + 1:]:
                        if bound_here(nxt, v) is not None:
                            # the value side of the next assignment still belongs to this web
                            region.append(nxt.value)
                            break
                        if any(isinstance(n, ast.Name) and n.id == v and not isinstance(n.ctx, ast.Load) for n in ast.walk(nxt)):
                            break          # a nested re-assignment: the reads from here on belong to other assignments (or to none: checked below)
                        region.append(nxt)
                    mine = []
                    for r in region:
                        for n in ast.walk(r):
                            if isinstance(n, ast.Name) and n.id == v:
                                if isinstance(n.ctx, ast.Load):
                                    mine.append(n)
                                else:
                                    ok = False
                    for n in mine:
                        if id(n) in claimed:
                            ok = False
                        claimed.add(id(n))
                    webs.append((node, mine))
            if not ok or plain != len(stores) or any(id(l) not in claimed for l in loads):
                continue
            if len(webs) < 2:
                continue
            base = v.split("__w")[0]
            idx = 1
            for (store, mine) in webs[1:]:
                idx += 1
                while ("%s__w%d" % (base, idx)) in self.stores or ("%s__w%d" % (base, idx)) in self.loads:
                    idx += 1
                new = "%s__w%d" % (base, idx)
                store.id = new
                for n in mine:
                    n.id = new
            self.bump("WEBSPLIT")
            return True
        return False

    def tailweb(self):
        """`v = E` followed, in its block, by statements that always leave the function and never rebind v: only they can read this value, so the
        assignment and those reads get a name of their own (v is bound elsewhere too, which kept the single-assignment rewrites away)."""
        for blk in _all_blocks(self.fn):
            for k, st in enumerate(blk[:-1]):
                if not (isinstance(st, ast.Assign) and len(st.targets) == 1 and isinstance(st.targets[0], ast.Name)):
                    continue
                v = st.targets[0].id
                if len(self.stores.get(v, ())) < 2 or v in self.captured or "__w" in v and False:
                    continue
                tail = blk[k + 1:]
                if not always_leaves_function(tail) or _contains_own(tail, ast.Break) or _contains_own(tail, ast.Continue):
                    continue
                if any(isinstance(n, ast.Name) and n.id == v and not isinstance(n.ctx, ast.Load) for s_ in tail for n in ast.walk(s_)):
                    continue
                if any(isinstance(n, ast.Name) and n.id == v for n in ast.walk(st.value)):
                    continue
                if any(isinstance(n, (ast.FunctionDef, ast.AsyncFunctionDef, ast.Lambda, ast.ClassDef)) for s_ in tail for n in ast.walk(s_)):
                    continue
                if any(isinstance(t, ast.Try) and any(isinstance(n, ast.Name) and n.id == v for part in (t.handlers, t.finalbody) for x in part for n in ast.walk(x)) for t, _ in _fn_nodes(self.fn)):
                    continue
                reads = [n for s_ in tail for n in ast.walk(s_) if isinstance(n, ast.Name) and n.id == v]
                base = v.split("__w")[0]
                idx = 2
                while ("%s__w%d" % (base, idx)) in self.stores or ("%s__w%d" % (base, idx)) in self.loads:
                    idx += 1
                new = "%s__w%d" % (base, idx)
                st.targets[0].id = new
                for n in reads:
                    n.id = new
                self.bump("WEBSPLIT")
                return True
        return False

    def pass_blocks(self):
        if self.websplit() or self.tailweb():
            return True
        changed = False
        for blk in _all_blocks(self.fn):
            top = blk is self.fn.body
            if self.prop(blk) or self.getsetattr(blk) or self.constfold(blk) or self.revdisplay(blk) or self.lencomp(blk) or self.star(blk) or self.callsel(blk) or self.tuplepush(blk) or self.sumloop(blk) or self.listcomp(blk) or self.unroll(blk) or self.listbuild(blk) or self.copyinout(blk) or self.copyin(blk) or self.copyprop(blk) or self.augform(blk) or self.copyback(blk) or self.lastof(blk) or self.nonetest(blk) or self.derived(blk) or self.initsort(blk) or self.lockwith(blk) or self.suppress(blk) or self.hasattr_eafp(blk) or self.dictget(blk) or self.contguard(blk) or self.flagloop(blk) or self.ifflag(blk) or self.flageq(blk) or self.thread(blk) or self.deadstore(blk) or self.kw(blk) or self.split(blk) or self.retsplit(blk) or self.unindex(blk) or self.yieldsplit(blk) or self.forelse(blk) or self.dowhile(blk) or self.withsink(blk) or self.testsplit(blk) or self.rot(blk) or self.brk(blk, top) or self.wtop(blk) or self.ifs(blk) or self.sink(blk) or self.unpack(blk) or self.fwd(blk):
                return True
        return changed

    # -- NOT / ELSE / GUARD / IFEXP --------------------------------------------------------------------------------
    def ifs(self, blk):
        for i, st in enumerate(blk):
            if isinstance(st, (ast.If, ast.While)):
                ft = _fold_test(st.test)
                if ft is not st.test:
                    st.test = ft
                    self.bump("CONSTIF")
                    return True
            if not self.stores.get("bool"):
                for n in self._own_exprs(st):
                    if isinstance(n, ast.IfExp):
                        ft = _fold_test(n.test)
                        if ft is not n.test:
                            n.test = ft
                            self.bump("CONSTIF")
                            return True
            if isinstance(st, (ast.If, ast.While)):
                hdr = list(ast.walk(st.test))
            elif isinstance(st, (ast.For, ast.AsyncFor)):
                hdr = list(ast.walk(st.iter))
            elif isinstance(st, (ast.With, ast.AsyncWith, ast.Try, ast.FunctionDef, ast.AsyncFunctionDef, ast.ClassDef)):
                hdr = []
            else:
                hdr = list(ast.walk(st))
            for n in hdr:
                # `a if True else b` -> a   (anywhere in a simple statement: only one arm is ever evaluated)
                if isinstance(n, ast.IfExp) and isinstance(n.test, ast.Constant):
                    _replace_node(st, n, n.body if n.test.value else n.orelse)
                    self.bump("CONSTIF")
                    return True
                # `x == a or x == b` -> `x in (a, b)`;  `x != a and x != b` -> `x not in (a, b)`   (x a plain name: reading it twice or once is the same)
                if isinstance(n, ast.BoolOp):
                    want = ast.Eq if isinstance(n.op, ast.Or) else ast.NotEq
                    vals = n.values
                    for j in range(len(vals) - 1):
                        a_, b_ = vals[j], vals[j + 1]
                        if all(isinstance(x, ast.Compare) and len(x.ops) == 1 and isinstance(x.ops[0], want) and isinstance(x.left, ast.Name) for x in (a_, b_)) \
                                and a_.left.id == b_.left.id and not _has_effect(a_.comparators[0]) and not _has_effect(b_.comparators[0]):
                            k2 = j + 2
                            items = [a_.comparators[0], b_.comparators[0]]
                            while k2 < len(vals) and isinstance(vals[k2], ast.Compare) and len(vals[k2].ops) == 1 and isinstance(vals[k2].ops[0], want) \
                                    and isinstance(vals[k2].left, ast.Name) and vals[k2].left.id == a_.left.id and not _has_effect(vals[k2].comparators[0]):
                                items.append(vals[k2].comparators[0])
                                k2 += 1
                            new = ast.Compare(left=a_.left, ops=[ast.In() if want is ast.Eq else ast.NotIn()], comparators=[ast.Tuple(elts=items, ctx=ast.Load())])
                            ast.copy_location(new, a_)
                            ast.fix_missing_locations(new)
                            if len(vals) == k2 - j:
                                _replace_node(st, n, new)
                            else:
                                n.values = vals[:j] + [new] + vals[k2:]
                            self.bump("EQIN")
                            return True
                # f(x for x in it) -> f(it) for consumers that only iterate their argument
                if isinstance(n, ast.Call) and len(n.args) == 1 and not n.keywords and isinstance(n.args[0], ast.GeneratorExp) and len(n.args[0].generators) == 1 \
                        and not n.args[0].generators[0].ifs and not n.args[0].generators[0].is_async and isinstance(n.args[0].elt, ast.Name) \
                        and isinstance(n.args[0].generators[0].target, ast.Name) and n.args[0].elt.id == n.args[0].generators[0].target.id \
                        and ((isinstance(n.func, ast.Name) and n.func.id in ("sum", "list", "tuple", "sorted", "min", "max", "any", "all", "set", "frozenset") and not self.stores.get(n.func.id))
                             or (isinstance(n.func, ast.Attribute) and n.func.attr == "join" and isinstance(n.func.value, ast.Constant))):
                    n.args[0] = n.args[0].generators[0].iter
                    self.bump("IDGEN")
                    return True
                # sum((A if c else B) for x in it) with c independent of x and effect-free -> sum(A for x in it) if c else sum(B for x in it)
                if isinstance(n, ast.Call) and isinstance(n.func, ast.Name) and n.func.id == "sum" and not self.stores.get("sum") and len(n.args) == 1 and not n.keywords \
                        and isinstance(n.args[0], (ast.GeneratorExp, ast.ListComp)) and len(n.args[0].generators) == 1 and not n.args[0].generators[0].ifs \
                        and isinstance(n.args[0].elt, ast.IfExp) and not n.args[0].generators[0].is_async:
                    ge = n.args[0]
                    c = ge.elt.test
                    bound = {x.id for x in ast.walk(ge.generators[0].target) if isinstance(x, ast.Name)}
                    if not _has_effect(c) and not any(isinstance(x, ast.Name) and x.id in bound for x in ast.walk(c)) and not any(isinstance(x, (ast.Attribute, ast.Subscript)) for x in ast.walk(c)):
                        def mk(arm):
                            g2 = type(ge)(elt=arm, generators=copy.deepcopy(ge.generators))
                            return ast.copy_location(ast.Call(func=ast.Name(id="sum", ctx=ast.Load()), args=[ast.copy_location(g2, ge)], keywords=[]), n)
                        new = ast.copy_location(ast.IfExp(test=c, body=mk(ge.elt.body), orelse=mk(ge.elt.orelse)), n)
                        ast.fix_missing_locations(new)
                        _replace_node(st, n, new)
                        self.bump("UNSWITCH")
                        return True
            if not isinstance(st, ast.If):
                continue
            # `if a: if b: S`  ->  `if a and b: S`   (neither has an else)
            if not st.orelse and len(st.body) == 1 and isinstance(st.body[0], ast.If) and not st.body[0].orelse:
                inner = st.body[0]
                vals = (list(st.test.values) if isinstance(st.test, ast.BoolOp) and isinstance(st.test.op, ast.And) else [st.test]) + \
                    (list(inner.test.values) if isinstance(inner.test, ast.BoolOp) and isinstance(inner.test.op, ast.And) else [inner.test])
                st.test = ast.copy_location(ast.BoolOp(op=ast.And(), values=vals), st.test)
                st.body = inner.body
                self.bump("IFAND")
                return True
            t = st.test
            # a constant test (a helper inlined with a literal flag): keep the arm that runs
            if isinstance(t, ast.Constant):
                blk[i:i + 1] = (st.body if t.value else st.orelse) or []
                self.bump("CONSTIF")
                return True
            # if bool(x): -> if x:
            if isinstance(t, ast.Call) and isinstance(t.func, ast.Name) and t.func.id == "bool" and len(t.args) == 1 and not t.keywords and not self.stores.get("bool"):
                st.test = t.args[0]
                self.bump("NOT")
                return True
            if isinstance(t, ast.UnaryOp) and isinstance(t.op, ast.Not) and isinstance(t.operand, ast.Call) and isinstance(t.operand.func, ast.Name) and t.operand.func.id == "bool" \
                    and len(t.operand.args) == 1 and not t.operand.keywords and not self.stores.get("bool"):
                t.operand = t.operand.args[0]
                self.bump("NOT")
                return True
            # not (a != b)  ->  a == b
            if isinstance(t, ast.UnaryOp) and isinstance(t.op, ast.Not) and isinstance(t.operand, ast.Compare) and not isinstance(negate(t.operand), ast.UnaryOp):
                st.test = negate(t.operand)
                self.bump("NOT")
                return True
            if _negative(t) and st.orelse and st.body and not always_exits(st.body) and not always_exits(st.orelse):
                st.test, st.body, st.orelse = negate(t), st.orelse, st.body
                self.bump("NOT")
                return True
            if st.orelse and always_exits(st.body):
                blk[i + 1:i + 1] = st.orelse
                st.orelse = []
                self.bump("ELSE")
                return True
            if st.orelse and always_exits(st.orelse):
                rest = st.body
                st.test, st.body, st.orelse = negate(st.test), st.orelse, []
                blk[i + 1:i + 1] = rest
                self.bump("ELSE")
                return True
            rest = blk[i + 1:]
            if not st.orelse and always_exits(st.body) and rest and always_exits(rest) and _negative(t):
                # both arms leave: the test is written in its positive form
                body = st.body
                st.test, st.body = negate(st.test), rest
                blk[i + 1:] = body
                self.bump("GUARD")
                return True
            # IFASSIGN: both arms assign the same name once
            if (len(st.body) == 1 and len(st.orelse) == 1 and isinstance(st.body[0], ast.Assign) and isinstance(st.orelse[0], ast.Assign)
                    and len(st.body[0].targets) == 1 and len(st.orelse[0].targets) == 1
                    and _simple_target(st.body[0].targets[0]) and _dump(st.body[0].targets[0]) == _dump(st.orelse[0].targets[0])
                    and not any(isinstance(n, (ast.Yield, ast.YieldFrom)) for a_ in (st.body[0], st.orelse[0]) for n in ast.walk(a_))):
                v = st.body[0].targets[0]
                new = ast.Assign(targets=[v], value=ast.IfExp(test=st.test, body=st.body[0].value, orelse=st.orelse[0].value))
                ast.copy_location(new, st)
                ast.copy_location(new.value, st)
                blk[i] = new
                self.bump("IFEXP")
                return True
        # conditional expressions / loop tests with a negated test
        for st in blk:
            for n in self._own_exprs(st):
                if isinstance(n, ast.IfExp) and _negative(n.test):
                    n.test, n.body, n.orelse = negate(n.test), n.orelse, n.body
                    self.bump("NOT")
                    return True
                if isinstance(n, ast.UnaryOp) and isinstance(n.op, ast.Not) and isinstance(n.operand, ast.Compare) and not isinstance(negate(n.operand), ast.UnaryOp):
                    _replace_node(st, n, negate(n.operand))
                    self.bump("NOT")
                    return True
        return False

    def _own_exprs(self, st):
        """Expression nodes of a statement's own header (not of nested statements)."""
        stack = []
        for fld, val in ast.iter_fields(st):
            if fld in ("body", "orelse", "finalbody", "handlers", "cases"):
                continue
            if isinstance(val, ast.AST):
                stack.append(val)
            elif isinstance(val, list):
                stack.extend(v for v in val if isinstance(v, ast.AST))
        while stack:
            n = stack.pop()
            yield n
            if isinstance(n, ast.Lambda):
                continue
            stack.extend(ast.iter_child_nodes(n))

    # -- SUMLOOP ---------------------------------------------------------------------------------------------------
    def sumloop(self, blk):
        """`t = K ; for v in IT: t += E`  ->  `t = K + sum((E for v in IT))`  (K an integer literal; `t = sum(..)` for K == 0) when the loop
        body is that one statement, E has no effect and reads neither t nor anything the loop changes, v is not read afterwards."""
        for i in range(1, len(blk)):
            lp, init = blk[i], blk[i - 1]
            if not (isinstance(lp, ast.For) and not lp.orelse and isinstance(lp.target, ast.Name) and len(lp.body) == 1):
                continue
            st = lp.body[0]
            if not (isinstance(st, ast.AugAssign) and isinstance(st.op, ast.Add) and isinstance(st.target, ast.Name)):
                continue
            t, v = st.target.id, lp.target.id
            if not (isinstance(init, ast.Assign) and len(init.targets) == 1 and isinstance(init.targets[0], ast.Name) and init.targets[0].id == t
                    and isinstance(init.value, ast.Constant) and isinstance(init.value.value, int) and not isinstance(init.value.value, bool)):
                continue
            if t in self.captured or v in self.captured or t == v or _has_effect(st.value) or _has_effect(lp.iter):
                continue
            if any(isinstance(n, ast.Name) and n.id == t for e in (st.value, lp.iter) for n in ast.walk(e)):
                continue
            if any(isinstance(n, ast.Name) and n.id == v and isinstance(n.ctx, ast.Load) for s_ in blk[i + 1:] for n in ast.walk(s_)):
                continue
            gen = ast.GeneratorExp(elt=st.value, generators=[ast.comprehension(target=ast.Name(id=v, ctx=ast.Store()), iter=lp.iter, ifs=[], is_async=0)])
            call = ast.Call(func=ast.Name(id="sum", ctx=ast.Load()), args=[gen], keywords=[])
            val = call if init.value.value == 0 else ast.BinOp(left=init.value, op=ast.Add(), right=call)
            new = ast.Assign(targets=[ast.Name(id=t, ctx=ast.Store())], value=val)
            ast.copy_location(new, lp)
            ast.fix_missing_locations(new)
            blk[i - 1:i + 1] = [new]
            self.bump("SUMLOOP")
            return True
        return False

    # -- LISTCOMP --------------------------------------------------------------------------------------------------
    def listcomp(self, blk):
        """`a = [] ; b = [] ; for v in IT: a.append(E1) ; b.append(E2)`   ->   `_it = IT ; a = [E1 for v in _it] ; b = [E2 for v in _it]`
        when the loop body is nothing but one append per list, E1/E2 are effect-free expressions that do not read the lists, IT is
        a variable or a call that returns a fresh list (os.listdir, sorted, list), and v is not read after the loop."""
        def pure(e):
            for n in ast.walk(e):
                if isinstance(n, (ast.Await, ast.Yield, ast.YieldFrom, ast.NamedExpr, ast.Lambda)):
                    return False
                if isinstance(n, ast.Call):
                    f = n.func
                    if isinstance(f, ast.Name) and f.id in PURE_BUILTINS and not self.stores.get(f.id):
                        continue
                    if isinstance(f, ast.Attribute) and isinstance(f.value, ast.Attribute) and isinstance(f.value.value, ast.Name) and f.value.value.id == "os" and f.value.attr == "path" \
                            and f.attr in ("join", "basename", "dirname", "normpath", "split", "splitext"):
                        continue
                    if isinstance(f, ast.Attribute) and isinstance(f.value, ast.Constant) and isinstance(f.value.value, (str, bytes)) and f.attr in ("format", "join"):
                        continue
                    return False
            return True
        for i, lp in enumerate(blk):
            if not (isinstance(lp, (ast.For, ast.AsyncFor)) and not lp.orelse and isinstance(lp.target, ast.Name) and lp.body):
                continue
            v = lp.target.id
            apps = []
            ok = True
            for st in lp.body:
                c = st.value if isinstance(st, ast.Expr) else None
                if not (isinstance(c, ast.Call) and isinstance(c.func, ast.Attribute) and c.func.attr == "append" and isinstance(c.func.value, ast.Name) and len(c.args) == 1 and not c.keywords
                        and not isinstance(c.args[0], ast.Starred)):
                    ok = False
                    break
                apps.append((c.func.value.id, c.args[0]))
            names = [a for a, _e in apps]
            if not ok or len(set(names)) != len(names) or v in names:
                continue
            # the lists: bound to [] in the statements right before the loop (in any order), nothing else in between
            k = i
            inits = {}
            while k > 0 and isinstance(blk[k - 1], ast.Assign) and len(blk[k - 1].targets) == 1 and isinstance(blk[k - 1].targets[0], ast.Name) \
                    and isinstance(blk[k - 1].value, ast.List) and not blk[k - 1].value.elts and blk[k - 1].targets[0].id in names and blk[k - 1].targets[0].id not in inits:
                inits[blk[k - 1].targets[0].id] = k - 1
                k -= 1
            if set(inits) != set(names):
                continue
            if any(nm in self.captured or nm in self.params for nm in names + [v]):
                continue
            if not all(pure(e) and not any(isinstance(n, ast.Name) and n.id in names for n in ast.walk(e)) for _a, e in apps):
                continue
            it = lp.iter
            fresh_list = isinstance(it, ast.Call) and not it.keywords and (
                (isinstance(it.func, ast.Name) and it.func.id in ("sorted", "list") and not self.stores.get(it.func.id)) or
                (isinstance(it.func, ast.Attribute) and isinstance(it.func.value, ast.Name) and it.func.value.id == "os" and it.func.attr == "listdir"))
            if not (isinstance(it, ast.Name) or fresh_list or len(apps) == 1):
                continue          # (a single list walks the iterable once, whatever it is)
            if isinstance(it, ast.Name) and (it.id in names or it.id == v):
                continue
            # v must not be read after the loop (a comprehension keeps its variable to itself)
            later_reads = any(isinstance(n, ast.Name) and n.id == v and isinstance(n.ctx, ast.Load) for s_ in blk[i + 1:] for n in ast.walk(s_))
            other_stores = [x for x in self.stores.get(v, []) if x is not lp.target]
            if later_reads or (other_stores and any(isinstance(n, ast.Name) and n.id == v and isinstance(n.ctx, ast.Load) and not any(n is m for s_ in lp.body for m in ast.walk(s_)) for n in self.loads.get(v, []))):
                continue
            new = []
            if isinstance(it, ast.Name):
                itn = it.id
            elif len(apps) == 1:
                itn = None
            else:
                itn = "_it%d" % (1 + sum(1 for n in self.stores if n.startswith("_it")))
                while itn in self.stores or itn in self.loads:
                    itn += "_"
                new.append(ast.Assign(targets=[ast.Name(id=itn, ctx=ast.Store())], value=it))
                self.fresh.add(itn)
            for nm, e in apps:
                comp = ast.ListComp(elt=e, generators=[ast.comprehension(target=ast.Name(id=v, ctx=ast.Store()), iter=ast.Name(id=itn, ctx=ast.Load()) if itn else it, ifs=[], is_async=1 if isinstance(lp, ast.AsyncFor) else 0)])
                new.append(ast.Assign(targets=[ast.Name(id=nm, ctx=ast.Store())], value=comp))
            for x in new:
                ast.copy_location(x, lp)
                ast.fix_missing_locations(x)
            blk[k:i + 1] = new
            self.bump("LISTCOMP")
            return True
        return False

    # -- INITSORT --------------------------------------------------------------------------------------------------
    def initsort(self, blk):
        """In a constructor, neighbouring `self.a = E` / `self.b = F` whose values have no effect and read nothing of self are independent: they are
        put in alphabetical order of the attribute (so that two constructors that differ in the order of such lines read the same)."""
        if self.fn.name != "__init__" or blk is not self.fn.body or not self.fn.args.args:
            return False
        selfn = self.fn.args.args[0].arg
        PURE_CTORS = {"Lock", "RLock", "Queue", "bytearray", "dict", "list", "set", "tuple", "bytes", "int", "bool", "str"} | set(RECORDS)

        def simple(st):
            if not (isinstance(st, ast.Assign) and len(st.targets) == 1 and isinstance(st.targets[0], ast.Attribute) and isinstance(st.targets[0].value, ast.Name) and st.targets[0].value.id == selfn):
                return None
            for n in ast.walk(st.value):
                if isinstance(n, ast.Call):
                    if not (isinstance(n.func, ast.Name) and n.func.id in PURE_CTORS and not self.stores.get(n.func.id) and n.func.id not in self.params):
                        return None
                elif isinstance(n, ast.Name) and n.id == selfn:
                    return None
                elif isinstance(n, (ast.Await, ast.Yield, ast.YieldFrom, ast.Lambda, ast.NamedExpr, ast.Subscript, ast.IfExp, ast.BoolOp, ast.Compare)):
                    return None
                elif isinstance(n, ast.Attribute) and _dump(n) not in NONNULL_CONSTS and not (isinstance(n.value, ast.Name) and n.value.id == "constants"):
                    return None
            return st.targets[0].attr
        i = 0
        while i < len(blk):
            j = i
            names = []
            while j < len(blk) and simple(blk[j]) is not None:
                names.append(simple(blk[j]))
                j += 1
            if j - i >= 2 and len(set(names)) == len(names) and names != sorted(names):
                run = sorted(blk[i:j], key=lambda st: st.targets[0].attr)
                blk[i:j] = run
                self.bump("INITSORT")
                return True
            i = max(j, i + 1)
        return False

    # -- LASTOF ----------------------------------------------------------------------------------------------------
    def lastof(self, blk):
        """`L = []` ; .. `L.append(E)` .. ; `x = L[-1] if L else None`  (nothing else touches L)   ->   `x = None` ; .. `x = E` ..
        (the last element appended, if any, is the last value assigned)"""
        for i, st in enumerate(blk):
            if not (isinstance(st, ast.Assign) and len(st.targets) == 1 and isinstance(st.targets[0], ast.Name) and isinstance(st.value, ast.List) and not st.value.elts):
                continue
            L = st.targets[0].id
            if L in self.params or L in self.captured or len(self.stores.get(L, ())) != 1:
                continue
            # the one statement that reads the list as a value
            use = None
            for k in range(i + 1, len(blk)):
                u = blk[k]
                if isinstance(u, ast.Assign) and len(u.targets) == 1 and isinstance(u.targets[0], ast.Name) and isinstance(u.value, ast.IfExp) and isinstance(u.value.test, ast.Name) and u.value.test.id == L \
                        and isinstance(u.value.orelse, ast.Constant) and u.value.orelse.value is None and isinstance(u.value.body, ast.Subscript) and isinstance(u.value.body.value, ast.Name) \
                        and u.value.body.value.id == L and isinstance(u.value.body.slice, ast.UnaryOp) and isinstance(u.value.body.slice.op, ast.USub) \
                        and isinstance(u.value.body.slice.operand, ast.Constant) and u.value.body.slice.operand.value == 1:
                    use = k
                    break
            if use is None:
                continue
            x = blk[use].targets[0].id
            if x in self.captured or x in self.params or any(isinstance(n, ast.Name) and n.id == x for s_ in blk[i:use] for n in ast.walk(s_)):
                continue
            apps = []
            ok = True
            use_ids = set(id(n) for n in ast.walk(blk[use]))
            for n in self.loads.get(L, []):
                if id(n) in use_ids:
                    continue
                loc = self._block_of(n)
                s_ = loc[0][loc[1]] if loc is not None else None
                if s_ is not None and isinstance(s_, ast.Expr) and isinstance(s_.value, ast.Call) and isinstance(s_.value.func, ast.Attribute) and s_.value.func.value is n and s_.value.func.attr == "append" \
                        and len(s_.value.args) == 1 and not s_.value.keywords and not isinstance(s_.value.args[0], ast.Starred) and not any(isinstance(m, ast.Name) and m.id == L for m in ast.walk(s_.value.args[0])):
                    apps.append(loc)
                else:
                    ok = False
            if not ok or not apps:
                continue
            between = set(id(n) for s_ in blk[i + 1:use] for n in ast.walk(s_))
            if any(not any(id(m) in between for m in ast.walk(b[k])) for b, k in apps):
                continue
            for b, k in apps:
                b[k] = ast.copy_location(ast.Assign(targets=[ast.Name(id=x, ctx=ast.Store())], value=b[k].value.args[0]), b[k])
                ast.fix_missing_locations(b[k])
            init = ast.copy_location(ast.Assign(targets=[ast.Name(id=x, ctx=ast.Store())], value=ast.Constant(value=None)), st)
            ast.fix_missing_locations(init)
            del blk[use]
            blk[i] = init
            self.bump("LASTOF")
            return True
        return False

    # -- NONETEST --------------------------------------------------------------------------------------------------
    def nonetest(self, blk):
        """`x is None` / `x is not None` / `x == None` / `x != None` in the test of an `if` or `while`, for a local x that is never None where
        the test stands (its closest binding in the straight-line code above is never None, sa/nullness.py): a literal"""
        if NULLNESS is None:
            return False
        for i, st in enumerate(blk):
            if not isinstance(st, (ast.If, ast.While)):
                continue
            for c in ast.walk(st.test):
                if isinstance(c, ast.Compare) and len(c.ops) == 1 and isinstance(c.ops[0], (ast.Is, ast.IsNot, ast.Eq, ast.NotEq)) and isinstance(c.left, ast.Name) \
                        and isinstance(c.comparators[0], ast.Constant) and c.comparators[0].value is None:
                    x = c.left.id
                    if x in self.captured or (isinstance(st, ast.While) and any(isinstance(n, ast.Name) and n.id == x and isinstance(n.ctx, (ast.Store, ast.Del)) for s_ in st.body for n in ast.walk(s_))):
                        continue
                    pre = self._prefix_for(self.fn.body, blk, x)
                    if pre is None:
                        continue
                    if self._last_def_nn(x, pre + list(blk[:i])) is not True:
                        continue
                    val = isinstance(c.ops[0], (ast.IsNot, ast.NotEq))
                    _replace_node(st, c, ast.copy_location(ast.Constant(value=val), c))
                    self.bump("NONETEST")
                    return True
        return False

    # -- DERIVED ---------------------------------------------------------------------------------------------------
    def derived(self, blk):
        """A local f that is always `f = E` for one call-free expression E over other locals, recomputed right after every binding of those locals:
        f equals E wherever it is read, so the reads are E and the assignments go (a flag kept in step with the value it describes)."""
        if blk is not self.fn.body:
            return False
        for f, stores in sorted(self.stores.items()):
            if f in self.params or f in self.captured or not stores or not self.loads.get(f) or not all(isinstance(x, ast.Name) for x in stores):
                continue
            sites = []          # (block, index) of every `f = E`
            dumps = set()
            ok = True
            for b in _all_blocks(self.fn):
                for k, st in enumerate(b):
                    if isinstance(st, ast.Assign) and len(st.targets) == 1 and isinstance(st.targets[0], ast.Name) and st.targets[0].id == f:
                        sites.append((b, k))
                        dumps.add(_dump(st.value))
            if len(sites) != len(stores) or len(dumps) != 1 or len(sites) < 1:
                continue
            E = sites[0][0][sites[0][1]].value
            if not isinstance(E, (ast.Compare, ast.BoolOp, ast.UnaryOp)) or _has_call(E) or any(isinstance(n, (ast.Subscript, ast.Lambda, ast.IfExp, ast.Starred)) for n in ast.walk(E)):
                continue
            ops = set()
            for n in ast.walk(E):
                if isinstance(n, ast.Name):
                    if n.id == f or n.id in self.captured:
                        ok = False
                    ops.add(n.id)
                elif isinstance(n, ast.Attribute) and _dump(n) not in NONNULL_CONSTS:
                    ok = False
            ops -= set(x for x in ops if x in self.modconsts or (x not in self.params and not self.stores.get(x)))
            if not ok or not ops:
                continue
            site_set = set((id(b), k) for b, k in sites)
            # every binding of an operand is a simple statement directly followed by `f = E`
            for b in _all_blocks(self.fn):
                for k, st in enumerate(b):
                    binds = [n for n in (ast.walk(st) if not isinstance(st, (ast.If, ast.While, ast.For, ast.AsyncFor, ast.With, ast.AsyncWith, ast.Try)) else self._own_exprs(st))
                             if isinstance(n, ast.Name) and n.id in ops and isinstance(n.ctx, (ast.Store, ast.Del))]
                    if isinstance(st, (ast.For, ast.AsyncFor)):
                        binds += [n for n in ast.walk(st.target) if isinstance(n, ast.Name) and n.id in ops]
                    if isinstance(st, (ast.With, ast.AsyncWith)):
                        binds += [n for it in st.items if it.optional_vars is not None for n in ast.walk(it.optional_vars) if isinstance(n, ast.Name) and n.id in ops]
                    if not binds:
                        continue
                    if not isinstance(st, ast.Assign) or (id(b), k + 1) not in site_set:
                        ok = False
            if not ok:
                continue
            # the first `f = E` comes before every read of f is the original program's business (else it raised); parameters among the operands are
            # covered by the same argument
            for n in list(self.loads.get(f, [])):
                _replace_node(self.fn, n, ast.copy_location(copy.deepcopy(E), n))
            for b, k in sorted(sites, key=lambda x: -x[1]):
                if isinstance(b[k], ast.Assign) and isinstance(b[k].targets[0], ast.Name) and b[k].targets[0].id == f:
                    if len(b) == 1:
                        b[k] = ast.copy_location(ast.Pass(), b[k])
                    else:
                        del b[k]
            self.bump("DERIVED")
            return True
        return False

    # -- COPYBACK --------------------------------------------------------------------------------------------------
    def _inside_try(self, blk):
        """Is the statement list `blk` (transitively) inside a `try` statement of this function?"""
        def walk(node, in_try):
            for field in ("body", "orelse", "finalbody"):
                b = getattr(node, field, None)
                if isinstance(b, list):
                    it = in_try or isinstance(node, ast.Try) or (isinstance(node, (ast.With, ast.AsyncWith)) and any(
                        isinstance(x, (ast.Name, ast.Attribute)) and (x.id if isinstance(x, ast.Name) else x.attr) in ("suppress", "ExitStack", "AsyncExitStack")
                        for w in node.items for x in ast.walk(w.context_expr)))      # a context manager that can swallow what its body raises
                    if b is blk:
                        return it
                    for st in b:
                        r = walk(st, it)
                        if r is not None:
                            return r
            for h in getattr(node, "handlers", []) or []:
                if h.body is blk:
                    return True
                for st in h.body:
                    r = walk(st, True)
                    if r is not None:
                        return r
            return None
        r = walk(self.fn, False)
        return True if r is None else r

    def copyback(self, blk):
        """`a, t, c = f()` ; .. ; `v = t`  (t a temporary bound there only; v untouched in between; every other read of t comes later in this block,
        before v is bound again)   ->   `a, v, c = f()` and the reads of t read v."""
        for i, st in enumerate(blk):
            if not (isinstance(st, ast.Assign) and len(st.targets) == 1):
                continue
            tg = st.targets[0]
            names = [tg] if isinstance(tg, ast.Name) else [x for x in tg.elts if isinstance(x, ast.Name)] if isinstance(tg, (ast.Tuple, ast.List)) and all(isinstance(x, ast.Name) for x in tg.elts) else []
            for tn in names:
                t = tn.id
                if t not in self.fresh or t in self.captured or len(self.stores.get(t, ())) != 1 or self.stores[t][0] is not tn:
                    continue
                for j in range(i + 1, len(blk)):
                    c = blk[j]
                    if isinstance(c, ast.Assign) and len(c.targets) == 1 and isinstance(c.targets[0], ast.Name) and isinstance(c.value, ast.Name) and c.value.id == t:
                        v = c.targets[0].id
                        if v == t or v in self.captured or any(x.id == v for x in names):
                            break
                        if any(isinstance(n, ast.Name) and n.id == v for s_ in blk[i + 1:j] for n in ast.walk(s_)):
                            break
                        # where the other reads of t may sit: after the copy, before v is bound again
                        end = len(blk)
                        for k in range(j + 1, len(blk)):
                            if any(isinstance(n, ast.Name) and n.id == v and isinstance(n.ctx, (ast.Store, ast.Del)) for n in ast.walk(blk[k])):
                                end = k
                                break
                        ok_ids = set(id(n) for s_ in blk[j + 1:end] for n in ast.walk(s_))
                        if end < len(blk) and isinstance(blk[end], ast.Assign):
                            ok_ids |= set(id(n) for n in ast.walk(blk[end].value))        # the value side of the re-binding statement still sees the copy
                        others = [n for n in self.loads.get(t, []) if n is not c.value]
                        if any(id(n) not in ok_ids for n in others):
                            # reads of t between its binding and the copy may read v as well, provided nothing can see that v was bound early: no
                            # break / continue in between (they would skip the copy), and no enclosing `try` (a handler could read the old v)
                            mid_ids = set(id(n) for s_ in blk[i + 1:j] for n in ast.walk(s_))
                            if any(id(n) not in ok_ids and id(n) not in mid_ids for n in others):
                                break
                            if any(isinstance(n, (ast.Break, ast.Continue)) for s_ in blk[i + 1:j] for n in ast.walk(s_)):
                                break
                            if self._inside_try(blk):
                                break
                        tn.id = v
                        for n in others:
                            n.id = v
                        del blk[j]
                        self.bump("COPYBACK")
                        return True
                    if any(isinstance(n, ast.Name) and n.id == t and isinstance(n.ctx, ast.Load) for n in ast.walk(c)) and not (isinstance(c, ast.Assign) and isinstance(c.value, ast.Name)):
                        if any(isinstance(n, ast.Name) and n.id == t and isinstance(n.ctx, (ast.Store, ast.Del)) for n in ast.walk(c)):
                            break
                        continue          # a read of t before the copy: decided at the copy (relaxed conditions)
        return False

    # -- AUGFORM ---------------------------------------------------------------------------------------------------
    def augform(self, blk):
        """`v = v + E` -> `v += E` for a local that only ever holds numbers (every binding is an integer literal, `v = v + ..` or `v += ..`)"""
        for i, st in enumerate(blk):
            if not (isinstance(st, ast.Assign) and len(st.targets) == 1 and isinstance(st.targets[0], ast.Name) and isinstance(st.value, ast.BinOp) and isinstance(st.value.op, (ast.Add, ast.Sub))
                    and isinstance(st.value.left, ast.Name) and st.value.left.id == st.targets[0].id):
                continue
            v = st.targets[0].id
            if v in self.params or v in self.captured or any(isinstance(n, (ast.NamedExpr, ast.Lambda)) for n in ast.walk(st.value.right)):
                continue
            numeric = True
            for b in _all_blocks(self.fn):
                for s_ in b:
                    if isinstance(s_, ast.Assign) and any(isinstance(n, ast.Name) and n.id == v and isinstance(n.ctx, ast.Store) for t_ in s_.targets for n in ast.walk(t_)):
                        if not (len(s_.targets) == 1 and isinstance(s_.targets[0], ast.Name)):
                            numeric = False
                        elif isinstance(s_.value, ast.Constant) and isinstance(s_.value.value, int) and not isinstance(s_.value.value, bool):
                            pass
                        elif isinstance(s_.value, ast.BinOp) and isinstance(s_.value.op, (ast.Add, ast.Sub)) and isinstance(s_.value.left, ast.Name) and s_.value.left.id == v:
                            pass
                        else:
                            numeric = False
                    elif isinstance(s_, (ast.For, ast.AsyncFor, ast.With, ast.AsyncWith)) and any(isinstance(n, ast.Name) and n.id == v and isinstance(n.ctx, ast.Store) for n in ast.walk(s_.target if isinstance(s_, (ast.For, ast.AsyncFor)) else ast.Module(body=[], type_ignores=[]))):
                        numeric = False
            if not numeric or len([x for x in self.stores.get(v, []) if not isinstance(x, ast.Name)]):
                continue
            new = ast.copy_location(ast.AugAssign(target=ast.Name(id=v, ctx=ast.Store()), op=st.value.op, value=st.value.right), st)
            ast.fix_missing_locations(new)
            blk[i] = new
            self.bump("AUGFORM")
            return True
        return False

    # -- COPYPROP --------------------------------------------------------------------------------------------------
    def copyprop(self, blk):
        """`t = v` for an inliner temporary t bound once, v bound once (or a parameter never re-bound): t is another name for v everywhere.
        Also `t = v` ; `<targets> = E(t)` with every read of t inside E: the right-hand side is evaluated before anything is bound, so it reads v."""
        for a, st in enumerate(blk):
            if not (isinstance(st, ast.Assign) and len(st.targets) == 1 and isinstance(st.targets[0], ast.Name) and isinstance(st.value, ast.Name)):
                continue
            t, v = st.targets[0].id, st.value.id
            if t not in self.fresh or t == v or t in self.captured or v in self.captured or t in self.params:
                continue
            if len(self.stores.get(t, ())) != 1 or not isinstance(self.stores[t][0], ast.Name):
                continue
            if a + 1 < len(blk) and isinstance(blk[a + 1], (ast.Assign, ast.AugAssign)):
                nxt = blk[a + 1]
                inside = set(id(n) for n in ast.walk(nxt.value))
                tl = self.loads.get(t, [])
                if tl and all(id(n) in inside for n in tl) and not any(isinstance(n, (ast.Lambda, ast.GeneratorExp, ast.ListComp, ast.SetComp, ast.DictComp, ast.NamedExpr)) for n in ast.walk(nxt.value)):
                    for n in tl:
                        n.id = v
                    del blk[a]
                    self.bump("COPYPROP")
                    return True
            nv = len(self.stores.get(v, ()))
            if not ((v in self.params and nv == 0) or (v not in self.params and nv == 1 and isinstance(self.stores[v][0], ast.Name) and v not in self.loop_stored)):
                continue
            if t in self.loop_stored and v not in self.params and False:
                continue
            for n in self.loads.get(t, []):
                n.id = v
            if len(blk) == 1:
                blk[a] = ast.copy_location(ast.Pass(), st)
            else:
                del blk[a]
            self.bump("COPYPROP")
            return True
        return False

    # -- FLAGEQ ----------------------------------------------------------------------------------------------------
    def flageq(self, blk):
        """`if C: ..; v = None` / `else: ..; v = E` (E never None; the only two bindings of v) ... `v is None`   ->   ... `C`
        for a call-free C over names bound once (and package constants): v is None exactly when C held."""
        if NULLNESS is None:
            return False
        for i, st in enumerate(blk):
            if not (isinstance(st, ast.If) and st.orelse and st.body):
                continue
            la, lb = st.body[-1], st.orelse[-1]
            if not all(isinstance(x, ast.Assign) and len(x.targets) == 1 and isinstance(x.targets[0], ast.Name) for x in (la, lb)) or la.targets[0].id != lb.targets[0].id:
                continue
            v = la.targets[0].id
            if v in self.params or v in self.captured or len(self.stores.get(v, ())) != 2:
                continue
            na = isinstance(la.value, ast.Constant) and la.value.value is None
            nb = isinstance(lb.value, ast.Constant) and lb.value.value is None
            if na == nb:
                continue
            other = lb.value if na else la.value
            cls_ = getattr(self.fn, "_sa_cls", None)
            asg = {k: x for k, x in NULLNESS.local_assigns(self.fn).items() if k != v}
            if not NULLNESS.nn(other, cls_, self.fn, asg, None, NONNULL_CONSTS):
                continue
            C = st.test
            if _has_call(C) or any(isinstance(n, (ast.Subscript, ast.Lambda, ast.IfExp)) for n in ast.walk(C)):
                continue
            stable = True
            for n in ast.walk(C):
                if isinstance(n, ast.Name):
                    if n.id in self.captured or (n.id in self.params and self.stores.get(n.id)) or (n.id not in self.params and len(self.stores.get(n.id, ())) > 1 and n.id not in self.modconsts):
                        stable = False
                elif isinstance(n, ast.Attribute):
                    if _dump(n) not in NONNULL_CONSTS:
                        stable = False
            if not stable:
                continue
            # the tests to replace: after this statement (any depth), `v is None` / `v is not None`
            later = [c for s_ in blk[i + 1:] for c in ast.walk(s_) if isinstance(c, ast.Compare) and len(c.ops) == 1 and isinstance(c.ops[0], (ast.Is, ast.IsNot)) and isinstance(c.left, ast.Name)
                     and c.left.id == v and isinstance(c.comparators[0], ast.Constant) and c.comparators[0].value is None]
            if not later:
                continue
            # the names of C bound once: that binding comes before this statement (so C means the same thing later)
            before = set(id(n) for s_ in blk[:i] for n in ast.walk(s_))
            pre = self._prefix_to(self.fn.body, blk)
            if pre is None:
                continue
            before |= set(id(n) for s_ in pre for n in ast.walk(s_))
            if any(isinstance(n, ast.Name) and n.id not in self.params and n.id not in self.modconsts and any(id(x) not in before for x in self.stores.get(n.id, [])) for n in ast.walk(C)):
                continue
            for c in later:
                positive = isinstance(c.ops[0], ast.Is) == na         # `v is None` when the None arm is the body: C itself
                newt = copy.deepcopy(C) if positive else negate(copy.deepcopy(C))
                for s_ in blk[i + 1:]:
                    if any(x is c for x in ast.walk(s_)):
                        _replace_node(s_, c, ast.copy_location(newt, c))
            self.bump("FLAGEQ")
            return True
        return False

    # -- COPYIN ----------------------------------------------------------------------------------------------------
    def copyin(self, blk):
        """`t = v` for a temporary t the inliner made (the helper updates the parameter it got v for), v not needed any more: t's statements work on
        v itself.  "Not needed any more" is decided on the block structure: after the copy, v is read only (a) inside statements that follow a later
        unconditional re-binding of v in their own straight-line prefix, that re-binding coming after the last use of t, or (b) nowhere the copy can
        flow to (the statements after the copy in its block always leave the function).  Bindings of v between the copy and the last use of t are
        plain copies back (`v = t`).  The copy is in no loop that mentions v elsewhere; the function has no try statement; no closures over t / v."""
        if any(isinstance(n, ast.Try) for n, _ in _fn_nodes(self.fn)):
            return False
        for a, st in enumerate(blk):
            if not (isinstance(st, ast.Assign) and len(st.targets) == 1 and isinstance(st.targets[0], ast.Name) and isinstance(st.value, ast.Name)):
                continue
            t, v = st.targets[0].id, st.value.id
            if t not in self.fresh or t == v or v in self.captured or t in self.captured or v in self.fresh:
                continue
            if len([x for x in self.stores.get(t, []) if x is st.targets[0]]) != 1:
                continue
            # positions in program (pre-)order
            pos, order, loops = {}, [0], []

            def number(stmts):
                for s_ in stmts:
                    order[0] += 1
                    start = order[0]
                    for n in ast.walk(s_) if not isinstance(s_, (ast.If, ast.While, ast.For, ast.AsyncFor, ast.With, ast.AsyncWith, ast.Try)) else self._own_exprs(s_):
                        pos[id(n)] = start
                    if isinstance(s_, (ast.FunctionDef, ast.AsyncFunctionDef, ast.ClassDef)):
                        continue
                    for b in _blocks_of(s_):
                        number(b)
                    if isinstance(s_, (ast.While, ast.For, ast.AsyncFor)):
                        loops.append((start, order[0], s_))
            number(self.fn.body)
            p_ = pos.get(id(st.targets[0]))
            if p_ is None:
                continue
            t_occ = [n for n in self.loads.get(t, []) + self.stores.get(t, [])]
            if any(id(n) not in pos for n in t_occ):
                continue
            t_last = max(pos[id(n)] for n in t_occ)
            if min(pos[id(n)] for n in t_occ) < p_:
                continue
            v_loads = [n for n in self.loads.get(v, []) if n is not st.value]
            v_stores = list(self.stores.get(v, []))
            if any(id(n) not in pos for n in v_loads + v_stores):
                continue
            # the copy is in no loop that mentions v elsewhere or t outside
            bad = False
            for (lo, hi, lp) in loops:
                if lo < p_ <= hi:
                    # the copy runs on every iteration: were t to become v, a binding of t further down the loop would reach the copy on the next
                    # iteration - where the original read the caller's own, unchanged v
                    if any(lo <= pos[id(n)] <= hi for n in self.stores.get(t, []) if n is not st.targets[0]):
                        bad = True
                if lo < p_ <= hi or lo == p_:
                    if any(lo <= pos[id(n)] <= hi for n in v_loads + [x for x in v_stores]):
                        inside = [n for n in v_loads + v_stores if lo <= pos[id(n)] <= hi]
                        # copies back `v = t` are fine
                        if any(not self._is_copy_back(n, v, t) for n in inside):
                            bad = True
            if bad:
                continue
            tail = blk[a + 1:]
            tail_ids = set(id(n) for s_ in tail for n in ast.walk(s_))
            leaves = always_leaves_function(tail) and not _contains_own(tail, ast.Break) and not _contains_own(tail, ast.Continue)
            ok = True
            for n in v_stores:
                q = pos[id(n)]
                if q > p_ and q <= t_last and not self._is_copy_back(n, v, t):
                    ok = False
            for n in v_loads:
                q = pos[id(n)]
                if q < p_:
                    continue
                if leaves and id(n) not in tail_ids:
                    continue          # cannot be reached from the copy
                if q <= t_last:
                    ok = False
                    break
                # after the last use of t: fine when v is re-bound, unconditionally, in the straight-line prefix of the reading statement
                blk_n = self._block_of(n)
                pre = self._prefix_to(self.fn.body, blk_n[0]) if blk_n is not None else None
                if pre is None:
                    ok = False
                    break
                pre = pre + list(blk_n[0][:blk_n[1]])
                rebound = False
                for s_ in pre:
                    if isinstance(s_, ast.Assign) and len(s_.targets) == 1:
                        tg = s_.targets[0]
                        names = [tg] if isinstance(tg, ast.Name) else [x for x in tg.elts if isinstance(x, ast.Name)] if isinstance(tg, (ast.Tuple, ast.List)) else []
                        if any(x.id == v and pos.get(id(x), 0) > t_last for x in names) and not any(isinstance(x, ast.Name) and x.id == v for x in ast.walk(s_.value)):
                            rebound = True
                if not rebound:
                    ok = False
                    break
            if not ok:
                continue
            for n in t_occ:
                n.id = v
            # the copy and the copies back are now `v = v`
            for b in _all_blocks(self.fn):
                b[:] = [s_ for s_ in b if not (isinstance(s_, ast.Assign) and len(s_.targets) == 1 and isinstance(s_.targets[0], ast.Name) and isinstance(s_.value, ast.Name)
                                               and s_.targets[0].id == v and s_.value.id == v)] or [ast.copy_location(ast.Pass(), st)]
            self.bump("COPYIN")
            return True
        return False

    def _is_copy_back(self, n, v, t):
        """the occurrence n of v is the target of a plain `v = t`"""
        loc = self._block_of(n)
        if loc is None:
            return False
        s_ = loc[0][loc[1]]
        return isinstance(s_, ast.Assign) and len(s_.targets) == 1 and s_.targets[0] is n and isinstance(s_.value, ast.Name) and s_.value.id == t

    def _block_of(self, node):
        """(block, index) of the statement of this function that contains `node`"""
        for b in _all_blocks(self.fn):
            for k, s_ in enumerate(b):
                own = ast.walk(s_) if not isinstance(s_, (ast.If, ast.While, ast.For, ast.AsyncFor, ast.With, ast.AsyncWith, ast.Try)) else self._own_exprs(s_)
                if any(x is node for x in own):
                    return b, k
        return None

    # -- COPYINOUT -------------------------------------------------------------------------------------------------
    def copyinout(self, blk):
        """`t = v` ; .. (t read and updated, v untouched) .. ; `v = t`   ->   the same statements on v itself, for a temporary t the inliner made for a
        parameter the helper updates.  On the way v changes earlier than before, which nobody can see: the statements in between leave only by
        `return` / `raise` (v dies with the frame; the function has no try statement and is no closure over v), and t is not used afterwards."""
        if any(isinstance(n, ast.Try) for n, _ in _fn_nodes(self.fn)):
            return False
        for a in range(len(blk) - 1):
            st = blk[a]
            if not (isinstance(st, ast.Assign) and len(st.targets) == 1 and isinstance(st.targets[0], ast.Name) and isinstance(st.value, ast.Name)):
                continue
            t, v = st.targets[0].id, st.value.id
            if t not in self.fresh or t == v or v in self.captured or t in self.captured or v in self.params and False:
                continue
            b = None
            for k in range(a + 1, len(blk)):
                s_ = blk[k]
                if isinstance(s_, ast.Assign) and len(s_.targets) == 1 and isinstance(s_.targets[0], ast.Name) and s_.targets[0].id == v and isinstance(s_.value, ast.Name) and s_.value.id == t:
                    b = k
                    break
                if any(isinstance(n, ast.Name) and n.id == v for n in ast.walk(s_)):
                    break
                if _contains_own([s_], ast.Break) or _contains_own([s_], ast.Continue) or isinstance(s_, (ast.While, ast.For, ast.AsyncFor, ast.FunctionDef, ast.AsyncFunctionDef, ast.ClassDef)):
                    break
                if any(isinstance(n, (ast.Yield, ast.YieldFrom)) for n in ast.walk(s_)):
                    break
            if b is None:
                continue
            region = set(id(n) for s_ in blk[a:b + 1] for n in ast.walk(s_))
            occ = self.loads.get(t, []) + self.stores.get(t, [])
            if any(id(n) not in region for n in occ):
                continue
            for s_ in blk[a + 1:b]:
                for n in ast.walk(s_):
                    if isinstance(n, ast.Name) and n.id == t:
                        n.id = v
            del blk[b]
            del blk[a]
            self.bump("COPYINOUT")
            return True
        return False

    # -- LISTBUILD -------------------------------------------------------------------------------------------------
    def listbuild(self, blk):
        """`v = [a] ; .. ; v.append(b) ; .. ; v.append(c)`   ->   `_lb0 = a ; .. ; _lb1 = b ; .. ; v = [_lb0, _lb1, c]`
        when v is a local bound once, nothing but these appends (statements of this very block) touches it before the last of them, and
        every other use comes later in the block: nobody can see the list while it grows (each element is still computed where it was)."""
        for i, st in enumerate(blk):
            if not (isinstance(st, ast.Assign) and len(st.targets) == 1 and isinstance(st.targets[0], ast.Name) and isinstance(st.value, ast.List)
                    and not any(isinstance(x, ast.Starred) for x in st.value.elts)):
                continue
            v = st.targets[0].id
            if len(self.stores.get(v, ())) != 1 or v in self.params or v in self.captured:
                continue

            def is_append(s_):
                return isinstance(s_, ast.Expr) and isinstance(s_.value, ast.Call) and isinstance(s_.value.func, ast.Attribute) and s_.value.func.attr == "append" \
                    and isinstance(s_.value.func.value, ast.Name) and s_.value.func.value.id == v and len(s_.value.args) == 1 and not s_.value.keywords \
                    and not isinstance(s_.value.args[0], ast.Starred)
            apps = [k for k in range(i + 1, len(blk)) if is_append(blk[k])]
            if not apps:
                continue
            last = apps[-1]
            allowed = set(id(blk[k].value.func.value) for k in apps)
            later = set(id(n) for s_ in blk[last + 1:] for n in ast.walk(s_))
            loads = self.loads.get(v, [])
            if any(id(n) not in allowed and id(n) not in later for n in loads):
                continue
            if any(isinstance(n, ast.Name) and n.id == v for k in apps for n in ast.walk(blk[k].value.args[0])) or any(isinstance(n, ast.Name) and n.id == v for n in ast.walk(st.value)):
                continue
            base = "_lb%d" % (1 + sum(1 for n in self.stores if n.startswith("_lb")))
            while any(n.startswith(base + "_") for n in list(self.stores) + list(self.loads)):
                base += "x"
            elts, cnt = [], 0

            def temp(e, at):
                nonlocal cnt
                if isinstance(e, ast.Constant):
                    return None, e
                nm = "%s_%d" % (base, cnt)
                cnt += 1
                self.fresh.add(nm)
                a = ast.copy_location(ast.Assign(targets=[ast.Name(id=nm, ctx=ast.Store())], value=e), at)
                ast.fix_missing_locations(a)
                return a, ast.copy_location(ast.Name(id=nm, ctx=ast.Load()), at)
            head = []
            for e in st.value.elts:
                a, ref = temp(e, st)
                if a is not None:
                    head.append(a)
                elts.append(ref)
            repl = {}
            for k in apps[:-1]:
                a, ref = temp(blk[k].value.args[0], blk[k])
                repl[k] = [a] if a is not None else []
                elts.append(ref)
            elts.append(blk[last].value.args[0])
            final = ast.copy_location(ast.Assign(targets=[ast.Name(id=v, ctx=ast.Store())], value=ast.List(elts=elts, ctx=ast.Load())), blk[last])
            ast.fix_missing_locations(final)
            out = blk[:i] + head
            for k in range(i + 1, last):
                out.extend(repl[k] if k in repl else [blk[k]])
            out.append(final)
            out.extend(blk[last + 1:])
            blk[:] = out
            self.bump("LISTBUILD")
            return True
        return False

    # -- UNROLL ----------------------------------------------------------------------------------------------------
    def unroll(self, blk):
        """`for x in (a, b): B` -> `x = a; B; x = b; B`   (a literal sequence of at most four elements, B without
        break / continue, no else).  Also a local list built by a display and (conditional) appends right before the loop:
        `L = [a]; if c: L.append(b); for x in L: B` -> `x = a; B; if c: x = b; B`  (only the first element may contain a
        call, so nothing with an effect changes its position relative to B)."""
        for i, lp in enumerate(blk):
            if not (isinstance(lp, ast.For) and not lp.orelse):
                continue
            if _contains_own(lp.body, ast.Break) or _contains_own(lp.body, ast.Continue):
                continue
            if any(isinstance(n, (ast.Yield, ast.YieldFrom)) for s_ in lp.body for n in ast.walk(s_)) and False:
                continue
            it = lp.iter
            if isinstance(it, (ast.Tuple, ast.List)) and 1 <= len(it.elts) <= 4 and not any(isinstance(e, ast.Starred) for e in it.elts) \
                    and not any(_has_call(e) for e in it.elts[1:]) and _size(lp.body) <= 8:
                new = []
                for e in it.elts:
                    new.append(ast.copy_location(ast.Assign(targets=[copy.deepcopy(lp.target)], value=e), lp))
                    new.extend(copy.deepcopy(lp.body))
                blk[i:i + 1] = new
                self.bump("UNROLL")
                return True
            if isinstance(it, ast.Name) and it.id not in self.params and it.id not in self.captured and len(self.loads.get(it.id, ())) >= 1 and _size(lp.body) <= 8:
                L = it.id
                # walk back over the statements that build L
                j = i - 1
                parts = []          # (condition or None, element)
                ok = True
                while j >= 0:
                    st = blk[j]
                    app = self._append_of(st, L)
                    if app is not None:
                        parts.append(app)
                        j -= 1
                        continue
                    break
                if j < 0:
                    continue
                st = blk[j]
                if not (isinstance(st, ast.Assign) and len(st.targets) == 1 and isinstance(st.targets[0], ast.Name) and st.targets[0].id == L and isinstance(st.value, (ast.List, ast.Tuple))
                        and not any(isinstance(e, ast.Starred) for e in st.value.elts)):
                    continue
                parts.reverse()
                elems = [(None, e) for e in st.value.elts] + parts
                n_loads = len(self.loads.get(L, ()))
                if n_loads != 1 + len(parts) or len(self.stores.get(L, ())) != 1 or not (1 <= len(elems) <= 4):
                    continue
                if any(_has_call(e) or (c is not None and _has_call(c)) for c, e in elems[1:]):
                    continue
                new = []
                for c, e in elems:
                    seq = [ast.copy_location(ast.Assign(targets=[copy.deepcopy(lp.target)], value=e), lp)] + copy.deepcopy(lp.body)
                    if c is None:
                        new.extend(seq)
                    else:
                        new.append(ast.copy_location(ast.If(test=c, body=seq, orelse=[]), lp))
                blk[j:i + 1] = new
                self.bump("UNROLL")
                return True
        return False

    def _append_of(self, st, L):
        """`L.append(e)` or `if c: L.append(e)` -> (c or None, e)"""
        cond = None
        if isinstance(st, ast.If) and not st.orelse and len(st.body) == 1:
            cond, st = st.test, st.body[0]
        if isinstance(st, ast.Expr) and isinstance(st.value, ast.Call) and isinstance(st.value.func, ast.Attribute) and st.value.func.attr == "append" \
                and isinstance(st.value.func.value, ast.Name) and st.value.func.value.id == L and len(st.value.args) == 1 and not st.value.keywords:
            if cond is not None and any(isinstance(n, ast.Name) and n.id == L for n in ast.walk(cond)):
                return None
            return (cond, st.value.args[0])
        return None

    # -- LOCKWITH --------------------------------------------------------------------------------------------------
    def contguard(self, blk):
        """directly in a loop body: `if A: continue` ; REST (up to the end of the body)   ->   `if not A: REST`
        (`continue` = skip the rest of this body; falling off its end does the same)."""
        if not any(isinstance(n, (ast.While, ast.For, ast.AsyncFor)) and n.body is blk for n in ast.walk(self.fn)):
            return False
        for i, st in enumerate(blk):
            if isinstance(st, ast.If) and not st.orelse and len(st.body) == 1 and isinstance(st.body[0], ast.Continue) and i + 1 < len(blk):
                rest = blk[i + 1:]
                st.test = negate(st.test)
                st.body = rest
                del blk[i + 1:]
                self.bump("CONTGUARD")
                return True
        return False

    def dictget(self, blk):
        """`try: v = D[k]` / `except KeyError: v = None`   ->   `v = D.get(k)`   for a module-level constant dict D (MODDICT_NAMES: a real dict, no
        __missing__) and a plain name k: the subscript is the only thing in the try body that can raise."""
        for i, st in enumerate(blk):
            if not (isinstance(st, ast.Try) and not st.finalbody and not st.orelse and len(st.handlers) == 1 and len(st.body) == 1):
                continue
            h = st.handlers[0]
            if not (isinstance(h.type, ast.Name) and h.type.id == "KeyError" and h.name is None and not self.stores.get("KeyError") and h.body):
                continue
            b, hb = st.body[0], (h.body[0] if len(h.body) == 1 else None)
            if not (isinstance(b, ast.Assign) and len(b.targets) == 1 and isinstance(b.targets[0], ast.Name) and isinstance(b.value, ast.Subscript) and isinstance(b.value.slice, ast.Name)):
                continue
            as_get = isinstance(hb, ast.Assign) and len(hb.targets) == 1 and isinstance(hb.targets[0], ast.Name) and hb.targets[0].id == b.targets[0].id \
                and isinstance(hb.value, ast.Constant) and hb.value.value is None
            D = b.value.value
            nm = D.id if isinstance(D, ast.Name) else (D.attr if isinstance(D, ast.Attribute) and isinstance(D.value, ast.Name) and not self.stores.get(D.value.id) else None)
            if nm is None or nm not in MODDICT_NAMES or self.stores.get(nm) or b.value.slice.id == b.targets[0].id:
                continue
            if as_get:
                new = ast.Assign(targets=b.targets, value=ast.Call(func=ast.Attribute(value=D, attr="get", ctx=ast.Load()), args=[b.value.slice], keywords=[]))
            else:
                # any other handler: `if k in D: v = D[k]` / `else: H`
                import copy as _copy
                new = ast.If(test=ast.Compare(left=_copy.deepcopy(b.value.slice), ops=[ast.In()], comparators=[_copy.deepcopy(D)]), body=[b], orelse=h.body)
            ast.copy_location(new, st)
            ast.fix_missing_locations(new)
            blk[i] = new
            self.bump("DICTGET")
            return True
        return False

    def hasattr_eafp(self, blk):
        """`try: v = x.a` / `except AttributeError: H` [`else: E`]   ->   `if hasattr(x, 'a'): v = x.a; E` / `else: H`
        (hasattr IS "getattr and catch AttributeError"; x is a plain name, so the only thing the try body can raise is that look-up)."""
        for i, st in enumerate(blk):
            if not (isinstance(st, ast.Try) and not st.finalbody and len(st.handlers) == 1 and len(st.body) == 1):
                continue
            h = st.handlers[0]
            if not (isinstance(h.type, ast.Name) and h.type.id == "AttributeError" and h.name is None and not self.stores.get("AttributeError") and not self.stores.get("hasattr")):
                continue
            b = st.body[0]
            if not (isinstance(b, ast.Assign) and len(b.targets) == 1 and isinstance(b.targets[0], ast.Name) and isinstance(b.value, ast.Attribute)
                    and isinstance(b.value.value, ast.Name) and b.targets[0].id != b.value.value.id):
                continue
            test = ast.Call(func=ast.Name(id="hasattr", ctx=ast.Load()), args=[ast.Name(id=b.value.value.id, ctx=ast.Load()), ast.Constant(value=b.value.attr)], keywords=[])
            new = ast.If(test=test, body=[b] + st.orelse, orelse=h.body)
            ast.copy_location(new, st)
            ast.fix_missing_locations(new)
            blk[i] = new
            self.bump("HASATTR")
            return True
        return False

    def suppress(self, blk):
        """`with suppress(Exception):` / `with suppress(BaseException): B`   ->   `try: B except <the class>: pass`
        Exact for these two classes only: contextlib.suppress also swallows an exception *group* made of suppressed classes, which an
        `except KeyError` would not catch - a group is itself an Exception, so for Exception / BaseException the two agree."""
        for i, st in enumerate(blk):
            if not (isinstance(st, ast.With) and len(st.items) == 1 and st.items[0].optional_vars is None):
                continue
            c = st.items[0].context_expr
            if not (isinstance(c, ast.Call) and not c.keywords and len(c.args) == 1 and isinstance(c.args[0], ast.Name) and c.args[0].id in ("Exception", "BaseException")):
                continue
            f = c.func
            ok = (isinstance(f, ast.Name) and f.id == "suppress" and not self.stores.get("suppress")) or \
                 (isinstance(f, ast.Attribute) and f.attr == "suppress" and isinstance(f.value, ast.Name) and f.value.id == "contextlib" and not self.stores.get("contextlib"))
            if not ok or self.stores.get(c.args[0].id):
                continue
            h = ast.ExceptHandler(type=None if c.args[0].id == "BaseException" else ast.Name(id="Exception", ctx=ast.Load()), name=None, body=[ast.Pass()])
            new = ast.Try(body=st.body, handlers=[h], orelse=[], finalbody=[])
            ast.copy_location(new, st)
            ast.copy_location(h, st)
            ast.fix_missing_locations(new)
            blk[i] = new
            self.bump("SUPPRESS")
            return True
        return False

    def lockwith(self, blk):
        """`L.acquire()` ; `try: B finally: L.release()`   ->   `with L: B`    (`await L.acquire()` -> `async with L`)"""
        for i in range(len(blk) - 1):
            a, t = blk[i], blk[i + 1]
            if not (isinstance(a, ast.Expr) and isinstance(t, ast.Try) and not t.handlers and not t.orelse and len(t.finalbody) == 1):
                continue
            v = a.value
            is_async = isinstance(v, ast.Await)
            if is_async:
                v = v.value
            if not (isinstance(v, ast.Call) and isinstance(v.func, ast.Attribute) and v.func.attr == "acquire" and not v.args and not v.keywords and _simple_target(v.func.value)):
                continue
            r = t.finalbody[0]
            rv = r.value if isinstance(r, ast.Expr) else None
            if not (isinstance(rv, ast.Call) and isinstance(rv.func, ast.Attribute) and rv.func.attr == "release" and not rv.args and not rv.keywords
                    and _dump(rv.func.value) == _dump(v.func.value)):
                continue
            item = ast.withitem(context_expr=v.func.value, optional_vars=None)
            new = (ast.AsyncWith if is_async else ast.With)(items=[item], body=t.body)
            ast.copy_location(new, a)
            blk[i:i + 2] = [new]
            self.bump("LOCKWITH")
            return True
        return False

    # -- FLAG ------------------------------------------------------------------------------------------------------
    def flagloop(self, blk):
        """`done = False` ; `while not done: .. done = True(tail) ..`   ->   `while True: .. break ..`
        (also the positive form `go = True; while go: .. go = False`, and a tail `done = <cond>` -> `if <cond>: break`).
        The flag is a local read only by the loop test; every assignment to it inside the loop is the last thing the
        iteration does."""
        for i in range(1, len(blk)):
            init, lp = blk[i - 1], blk[i]
            if not (isinstance(lp, ast.While) and not lp.orelse):
                continue
            t = lp.test
            neg = isinstance(t, ast.UnaryOp) and isinstance(t.op, ast.Not)
            name = t.operand if neg else t
            if not isinstance(name, ast.Name):
                continue
            f = name.id
            if f in self.params or f in self.captured or len(self.loads.get(f, ())) != 1:
                continue
            if not (isinstance(init, ast.Assign) and len(init.targets) == 1 and isinstance(init.targets[0], ast.Name) and init.targets[0].id == f
                    and isinstance(init.value, ast.Constant) and init.value.value is (False if neg else True)):
                continue
            stop_value = True if neg else False        # the value that ends the loop
            sites = []

            def tails(body):
                """assignments to f in tail position of `body`; False if f is assigned anywhere else in it"""
                if not body:
                    return True
                for st in body[:-1]:
                    if any(isinstance(n, ast.Name) and n.id == f and isinstance(n.ctx, ast.Store) for n in ast.walk(st)):
                        return False
                last = body[-1]
                if isinstance(last, ast.Assign) and len(last.targets) == 1 and isinstance(last.targets[0], ast.Name) and last.targets[0].id == f:
                    sites.append((body, len(body) - 1))
                    return not any(isinstance(n, ast.Name) and n.id == f for n in ast.walk(last.value))
                if isinstance(last, ast.If):
                    return tails(last.body) and tails(last.orelse)
                return not any(isinstance(n, ast.Name) and n.id == f and isinstance(n.ctx, ast.Store) for n in ast.walk(last))
            if not tails(lp.body) or not sites:
                continue
            if len(self.stores.get(f, ())) != len(sites) + 1:
                continue
            if _contains_own(lp.body, ast.Continue):
                continue      # `continue` re-tests the flag; keep it simple
            for owner, k in sites:
                st = owner[k]
                v = st.value
                if isinstance(v, ast.Constant) and isinstance(v.value, bool):
                    new = ast.Break() if v.value is stop_value else ast.Pass()
                    owner[k] = ast.copy_location(new, st)
                else:
                    cond = v if stop_value else negate(v)
                    owner[k] = ast.copy_location(ast.If(test=cond, body=[ast.copy_location(ast.Break(), st)], orelse=[]), st)
            lp.test = ast.copy_location(ast.Constant(value=True), lp.test)
            del blk[i - 1]
            self.bump("FLAG")
            return True
        return False

    # -- TUPLEPUSH -------------------------------------------------------------------------------------------------
    def tuplepush(self, blk):
        """`v = (x, y)` at several places, read only by `a, b = v` : the unpacking is pushed to every assignment
        (`a = x; b = y`) and disappears.  v is a local whose every store is a tuple display of that arity."""
        for i, st in enumerate(blk):
            if not (isinstance(st, ast.Assign) and len(st.targets) == 1 and isinstance(st.targets[0], ast.Tuple) and isinstance(st.value, ast.Name)):
                continue
            v = st.value.id
            tg = st.targets[0].elts
            if v in self.params or v in self.captured or len(self.loads.get(v, ())) != 1 or not all(isinstance(t, ast.Name) for t in tg):
                continue
            if len(set(t.id for t in tg)) != len(tg):
                continue
            stores = self.stores.get(v, [])
            if len(stores) < 1:
                continue
            sites = []
            ok = True
            for b2 in _all_blocks(self.fn):
                for k, s2 in enumerate(b2):
                    if isinstance(s2, ast.Assign) and any(isinstance(t, ast.Name) and t.id == v for t in s2.targets):
                        if not (len(s2.targets) == 1 and isinstance(s2.value, ast.Tuple) and len(s2.value.elts) == len(tg) and not any(isinstance(e, ast.Starred) for e in s2.value.elts)):
                            ok = False
                        # elements must not read the targets being assigned (parallel -> sequential)
                        names = {t.id for t in tg}
                        for idx_e, e in enumerate(s2.value.elts if isinstance(s2.value, ast.Tuple) else []):
                            if idx_e > 0 and any(isinstance(n, ast.Name) and n.id in {t.id for t in tg[:idx_e]} for n in ast.walk(e)):
                                ok = False
                        sites.append((b2, k))
            if not ok or len(sites) != len(stores):
                continue
            # the targets must not be otherwise live between the stores and the unpacking: require that they are not read before i in this block's later part
            for b2, k in sites:
                s2 = b2[k]
                new = [ast.copy_location(ast.Assign(targets=[ast.Name(id=t.id, ctx=ast.Store())], value=e), s2) for t, e in zip(tg, s2.value.elts)]
                for n_ in new:
                    ast.fix_missing_locations(n_)
                b2[k:k + 1] = new
            blk.remove(st)
            self.bump("TUPLEPUSH")
            return True
        return False

    # -- THREAD ----------------------------------------------------------------------------------------------------
    def _last_def_nn(self, name, prefix, exclude=None):
        """the closest binding of `name` in the straight-line statements `prefix` (outermost first) before a point makes it never None;
        None when no such binding is found there (a statement that may bind it in a nested block ends the search)"""
        if NULLNESS is None:
            return None
        cls_ = getattr(self.fn, "_sa_cls", None)
        asg = NULLNESS.local_assigns(self.fn)
        if exclude:
            asg = {k: x for k, x in asg.items() if k != exclude}
        for s_ in reversed(prefix):
            if isinstance(s_, ast.AugAssign) and isinstance(s_.target, ast.Name) and s_.target.id == name:
                return True          # the result of an augmented assignment of numbers / bytes is a value
            if isinstance(s_, ast.Assign) and len(s_.targets) == 1:
                tg = s_.targets[0]
                if isinstance(tg, ast.Name) and tg.id == name:
                    return NULLNESS.nn(s_.value, cls_, self.fn, asg, None, NONNULL_CONSTS)
                if isinstance(tg, (ast.Tuple, ast.List)) and not any(isinstance(x, ast.Starred) for x in tg.elts):
                    hit = [k for k, x in enumerate(tg.elts) if isinstance(x, ast.Name) and x.id == name]
                    if len(hit) == 1:
                        return NULLNESS._elem_nn(s_.value, hit[0], cls_, self.fn, asg, set(), NONNULL_CONSTS)
            if any(isinstance(n, ast.Name) and n.id == name and isinstance(n.ctx, (ast.Store, ast.Del)) for n in ast.walk(s_)):
                return None
        return None

    @staticmethod
    def _prefix_to(root, target):
        """statements that precede the block `target` on the way down from the block `root` (straight-line ancestors), or None"""
        if root is target:
            return []
        for k, st in enumerate(root):
            if isinstance(st, (ast.FunctionDef, ast.AsyncFunctionDef, ast.ClassDef)):
                continue
            for b in _blocks_of(st):
                r = FuncCanon._prefix_to(b, target)
                if r is not None:
                    return list(root[:k]) + r
        return None

    @staticmethod
    def _prefix_for(root, target, name):
        """like _prefix_to, for asking what `name` is bound to on arrival at `target`: statements before a loop that re-binds the name somewhere in
        its body (a later iteration arrives with that binding), or before a try statement whose body re-binds it (for its handlers / else / finally),
        do not count"""
        def stores(nodes):
            return any(isinstance(n, ast.Name) and n.id == name and isinstance(n.ctx, (ast.Store, ast.Del)) for s_ in nodes for n in ast.walk(s_))
        if root is target:
            return []
        for k, st in enumerate(root):
            if isinstance(st, (ast.FunctionDef, ast.AsyncFunctionDef, ast.ClassDef)):
                continue
            for b in _blocks_of(st):
                r = FuncCanon._prefix_for(b, target, name)
                if r is None:
                    continue
                if isinstance(st, (ast.While, ast.For, ast.AsyncFor)) and (stores(st.body) or stores(st.orelse) or (not isinstance(st, ast.While) and stores([st.target]))):
                    return r
                if isinstance(st, ast.Try) and b is not st.body and stores(st.body):
                    return r
                if isinstance(st, (ast.With, ast.AsyncWith)) and stores([it.optional_vars for it in st.items if it.optional_vars is not None]):
                    return r
                return list(root[:k]) + r
        return None

    def ifflag(self, blk):
        """`if c: A; v = K1` / `else: B; v = K2` ; `if T(v): S`   ->   `if c: A; if T(K1): S` / `else: B; if T(K2): S`
        when v (a local nobody else reads) is set to a literal at the very end of every arm: the test that follows is evaluated at the
        same point of either path, with v known (jump threading through a flag a helper returned).
        Likewise for a value-or-None result: `.. v = None` / `.. v = E` with E never None (sa/nullness.py), followed by a test that reads v only
        as `v is None` / `v is not None`: each arm knows the answer; v itself stays (it may be used afterwards)."""
        for i in range(len(blk) - 1):
            st, nxt = blk[i], blk[i + 1]
            if self._ifflag_at(blk, i):
                return True
        return False

    def _ifflag_at(self, blk, i):
        for _once in (0,):
            st, nxt = blk[i], blk[i + 1]
            if isinstance(st, ast.Assign) and len(st.targets) == 1 and isinstance(st.targets[0], ast.Name) and isinstance(st.value, ast.IfExp) and isinstance(nxt, ast.If) \
                    and any(isinstance(a, ast.Constant) and a.value is None for a in (st.value.body, st.value.orelse)) \
                    and any(isinstance(c, ast.Compare) and len(c.ops) == 1 and isinstance(c.ops[0], (ast.Is, ast.IsNot)) and isinstance(c.left, ast.Name) and c.left.id == st.targets[0].id
                            and isinstance(c.comparators[0], ast.Constant) and c.comparators[0].value is None for c in ast.walk(nxt.test)):
                # `v = E if c else None` ; `if v is None: ..`  ->  the conditional expression becomes a statement, so that each arm can decide the test
                v_ = st.targets[0].id
                a1 = ast.copy_location(ast.Assign(targets=[ast.Name(id=v_, ctx=ast.Store())], value=st.value.body), st)
                a2 = ast.copy_location(ast.Assign(targets=[ast.Name(id=v_, ctx=ast.Store())], value=st.value.orelse), st)
                new_if = ast.copy_location(ast.If(test=st.value.test, body=[a1], orelse=[a2]), st)
                ast.fix_missing_locations(new_if)
                blk[i] = new_if
                if self._ifflag_at(blk, i):
                    return True
                blk[i] = st
                return False
            if not (isinstance(st, ast.If) and st.orelse and isinstance(nxt, ast.If)):
                continue

            def tail_flag(arm, literal):
                while arm and isinstance(arm[-1], ast.If) and arm[-1].orelse:
                    a = tail_flag(arm[-1].body, literal)
                    return a if a is not None and a == tail_flag(arm[-1].orelse, literal) else None
                if arm and isinstance(arm[-1], ast.Assign) and len(arm[-1].targets) == 1 and isinstance(arm[-1].targets[0], ast.Name) and (isinstance(arm[-1].value, ast.Constant) or not literal):
                    return arm[-1].targets[0].id
                return None
            mode = "literal"
            v = tail_flag(st.body, True)
            if v is None or tail_flag(st.orelse, True) != v:
                v = tail_flag(st.body, False)
                mode = "none"
                if v is None or tail_flag(st.orelse, False) != v or NULLNESS is None:
                    continue
            if v in self.params or v in self.captured:
                continue
            loads = self.loads.get(v, [])
            in_test = set(id(n) for n in ast.walk(nxt.test))
            if not any(id(n) in in_test for n in loads):
                continue
            if mode == "literal" and any(id(n) not in in_test for n in loads):
                continue
            if any(isinstance(n, (ast.NamedExpr, ast.Await, ast.Yield, ast.YieldFrom, ast.Lambda)) for n in ast.walk(nxt.test)):
                continue
            if _size(nxt.body) + _size(nxt.orelse) > 8:
                continue
            if mode == "none":
                # every read of v in the test is the left side of `v is None` / `v is not None`
                cmps = [c for c in ast.walk(nxt.test) if isinstance(c, ast.Compare) and len(c.ops) == 1 and isinstance(c.ops[0], (ast.Is, ast.IsNot)) and isinstance(c.left, ast.Name) and c.left.id == v
                        and isinstance(c.comparators[0], ast.Constant) and c.comparators[0].value is None]
                if not cmps or set(id(c.left) for c in cmps) != set(id(n) for n in loads if id(n) in in_test):
                    continue
                # every arm's value is None or provably not None
                cls_ = getattr(self.fn, "_sa_cls", None)
                asg = NULLNESS.local_assigns(self.fn)

                asg_wo = {k: x for k, x in asg.items() if k != v}         # the name being assigned must not count as its own witness

                def last_def_nn(name, prefix):
                    """the closest assignment of `name` in the straight-line statements before this point makes it never None (None: not found)"""
                    for s_ in reversed(prefix):
                        if isinstance(s_, ast.AugAssign) and isinstance(s_.target, ast.Name) and s_.target.id == name:
                            return True          # the result of an augmented assignment of numbers / bytes is a value
                        if isinstance(s_, ast.Assign) and len(s_.targets) == 1 and isinstance(s_.targets[0], ast.Name) and s_.targets[0].id == name:
                            return NULLNESS.nn(s_.value, cls_, self.fn, asg_wo, None, NONNULL_CONSTS)
                        if any(isinstance(n, ast.Name) and n.id == name and isinstance(n.ctx, (ast.Store, ast.Del)) for n in ast.walk(s_)):
                            return None
                        if isinstance(s_, (ast.While, ast.For, ast.AsyncFor, ast.Try, ast.With, ast.AsyncWith)) and False:
                            return None
                    return None

                def ordered(test, name):
                    """the test compares `name` by <, <=, >, >= (evaluated without a TypeError: the name is not None)"""
                    return any(isinstance(c, ast.Compare) and len(c.ops) == 1 and isinstance(c.ops[0], (ast.Lt, ast.LtE, ast.Gt, ast.GtE))
                               and any(isinstance(x, ast.Name) and x.id == name for x in (c.left, c.comparators[0])) for c in ast.walk(test)) \
                        and not any(isinstance(b, ast.BoolOp) for b in ast.walk(test))

                def decided(arm, prefix, guards):
                    last = arm[-1]
                    if isinstance(last, ast.If):
                        return decided(last.body, prefix + arm[:-1], guards + [last.test]) and decided(last.orelse, prefix + arm[:-1], guards + [last.test])
                    val = last.value
                    if isinstance(val, ast.Constant) and val.value is None:
                        return True
                    if isinstance(val, ast.Name) and val.id != v:
                        if last_def_nn(val.id, prefix + arm[:-1]) is True or any(ordered(t_, val.id) for t_ in guards):
                            return True
                    return NULLNESS.nn(val, cls_, self.fn, asg_wo, None, NONNULL_CONSTS)
                if not (decided(st.body, blk[:i], [st.test]) and decided(st.orelse, blk[:i], [st.test])):
                    continue

            def push(arm):
                last = arm[-1]
                if isinstance(last, ast.If):
                    push(last.body)
                    push(last.orelse)
                    return
                k = last.value
                new = copy.deepcopy(nxt)
                if mode == "literal":
                    class R(ast.NodeTransformer):
                        def visit_Name(self, n):
                            return ast.copy_location(ast.Constant(value=k.value), n) if n.id == v and isinstance(n.ctx, ast.Load) else n
                    new.test = R().visit(new.test)
                else:
                    isnone = isinstance(k, ast.Constant) and k.value is None

                    class R2(ast.NodeTransformer):
                        def visit_Compare(self, c):
                            if len(c.ops) == 1 and isinstance(c.ops[0], (ast.Is, ast.IsNot)) and isinstance(c.left, ast.Name) and c.left.id == v and isinstance(c.comparators[0], ast.Constant) and c.comparators[0].value is None:
                                return ast.copy_location(ast.Constant(value=isnone if isinstance(c.ops[0], ast.Is) else not isnone), c)
                            return self.generic_visit(c)
                    new.test = R2().visit(new.test)
                arm.append(new)
            push(st.body)
            push(st.orelse)
            del blk[i + 1]
            self.bump("IFFLAG")
            return True
        return False

    def thread(self, blk):
        """Jump threading through a test on a value that every exit of the preceding loop has just set to a literal:
        `loop: .. v = (a, b); break .. [else: v = None]` ; `if v is not None: B(leaves the function)`
        ->  the breaks that make the test true run B themselves, the test disappears."""
        for i in range(len(blk) - 1):
            lp, iff = blk[i], blk[i + 1]
            # `loop: .. v = X; break .. else: .. v = Y` ; `w = v`  (v a temporary read nowhere else)   ->   the loop assigns w itself
            if isinstance(lp, (ast.While, ast.For, ast.AsyncFor)) and isinstance(iff, ast.Assign) and len(iff.targets) == 1 and isinstance(iff.targets[0], ast.Name) \
                    and isinstance(iff.value, ast.Name) and iff.value.id in self.fresh and iff.value.id != iff.targets[0].id:
                v_, w_ = iff.value.id, iff.targets[0].id
                sites_ = _own_breaks(lp.body)
                stores_ = self.stores.get(v_, [])
                if len(self.loads.get(v_, [])) == 1 and v_ not in self.captured and w_ not in self.captured and sites_ and not any(o is None for o, _k in sites_) and stores_:
                    ok_, hits = True, []
                    for owner, k in sites_:
                        if k >= 1 and isinstance(owner[k - 1], ast.Assign) and len(owner[k - 1].targets) == 1 and isinstance(owner[k - 1].targets[0], ast.Name) and owner[k - 1].targets[0].id == v_:
                            hits.append(owner[k - 1].targets[0])
                        else:
                            ok_ = False
                    infinite_ = isinstance(lp, ast.While) and _is_const_true(lp.test)
                    if not infinite_:
                        if lp.orelse and isinstance(lp.orelse[-1], ast.Assign) and len(lp.orelse[-1].targets) == 1 and isinstance(lp.orelse[-1].targets[0], ast.Name) and lp.orelse[-1].targets[0].id == v_:
                            hits.append(lp.orelse[-1].targets[0])
                        elif not (lp.orelse and always_exits(lp.orelse)):
                            ok_ = False
                    if ok_ and set(id(h) for h in hits) == set(id(x) for x in stores_) and all(isinstance(x, ast.Name) for x in stores_):
                        for h in hits:
                            h.id = w_
                        del blk[i + 1]
                        self.bump("THREAD")
                        return True
            if not (isinstance(lp, (ast.While, ast.For, ast.AsyncFor)) and isinstance(iff, ast.If) and not iff.orelse):
                continue
            t = iff.test
            neg = False
            if isinstance(t, ast.UnaryOp) and isinstance(t.op, ast.Not):
                t, neg = t.operand, True
            mode = None
            if isinstance(t, ast.Name):
                v, mode = t.id, "truthy"
            elif isinstance(t, ast.Compare) and len(t.ops) == 1 and isinstance(t.left, ast.Name) and isinstance(t.comparators[0], ast.Constant) and t.comparators[0].value is None and isinstance(t.ops[0], (ast.Is, ast.IsNot)):
                v, mode = t.left.id, "isnot" if isinstance(t.ops[0], ast.IsNot) else "is"
            if mode is None or v in self.params or v in self.captured:
                continue
            small = always_leaves_function(iff.body) and _size(iff.body) <= 2 and not any(_has_call_other_than_pure(x) for x in iff.body)
            if _contains_own(iff.body, ast.Break) or _contains_own(iff.body, ast.Continue):
                continue
            cls_ = getattr(self.fn, "_sa_cls", None)
            asg_ = NULLNESS.local_assigns(self.fn) if NULLNESS is not None else None

            def decide(e):
                """truth of the test for v == e; None if unknown"""
                if isinstance(e, ast.Constant):
                    isnone, truthy = e.value is None, bool(e.value)
                elif isinstance(e, (ast.Tuple, ast.List)) and e.elts and not any(isinstance(x, ast.Starred) for x in e.elts):
                    isnone, truthy = False, True
                elif mode in ("is", "isnot") and asg_ is not None and NULLNESS.nn(e, cls_, self.fn, {k_: x_ for k_, x_ in asg_.items() if k_ != v}, None, NONNULL_CONSTS):
                    isnone, truthy = False, None          # a value that is never None (sa/nullness.py)
                else:
                    return None
                r = truthy if mode == "truthy" else (not isnone if mode == "isnot" else isnone)
                return (not r) if neg else r
            sites = _own_breaks(lp.body)
            if any(o is None for o, _k in sites):
                continue
            arrivals = []       # (owner list, index of the assignment, verdict)
            ok = True
            def last_assign(owner, k):
                """the assignment to v among the plain name assignments directly before position k"""
                j = k - 1
                while j >= 0 and isinstance(owner[j], ast.Assign) and len(owner[j].targets) == 1 and isinstance(owner[j].targets[0], ast.Name):
                    if owner[j].targets[0].id == v:
                        return owner[j]
                    if any(isinstance(n, ast.Name) and n.id == v for n in ast.walk(owner[j].value)):
                        return None
                    j -= 1
                return None
            for owner, k in sites:
                la = last_assign(owner, k)
                if la is None:
                    ok = False
                    break
                d = decide(la.value)
                if d is None and mode in ("is", "isnot") and isinstance(la.value, ast.Name) and la.value.id != v:
                    # the value copied is bound, on the way to this break, by something that is never None
                    pre_ = self._prefix_to(lp.body, owner)
                    if pre_ is not None and self._last_def_nn(la.value.id, pre_ + list(owner[:owner.index(la)]), exclude=v) is True:
                        r_ = (mode == "isnot")
                        d = (not r_) if neg else r_
                if d is None:
                    ok = False
                    break
                arrivals.append((owner, k, d))
            if not ok:
                continue
            infinite = isinstance(lp, ast.While) and _is_const_true(lp.test)
            else_verdict = None
            if not infinite:
                if not lp.orelse or always_exits(lp.orelse):
                    if not lp.orelse:
                        continue          # the loop can end normally with an unknown v
                else:
                    last = last_assign(lp.orelse, len(lp.orelse))
                    if last is None:
                        continue
                    else_verdict = decide(last.value)
                    if else_verdict is None:
                        continue
            if not arrivals and else_verdict is None:
                continue
            places = sum(1 for _o, _k, d in arrivals if d) + (1 if else_verdict else 0)
            if not small and places > 1:
                continue          # a large body is moved to the one place that runs it, never duplicated
            leaves = always_leaves_function(iff.body)
            for owner, k, d in sorted(arrivals, key=lambda a: -a[1]):
                if d:
                    owner[k:k + 1] = copy.deepcopy(iff.body) + ([] if leaves else [owner[k]])
            if else_verdict:
                lp.orelse.extend(copy.deepcopy(iff.body))
            del blk[i + 1]
            self.bump("THREAD")
            return True
        return False

    # -- DEADSTORE -------------------------------------------------------------------------------------------------
    def deadstore(self, blk):
        """`v = <literal>` for a local that is never read."""
        for i, st in enumerate(blk):
            if isinstance(st, ast.Assign) and len(st.targets) == 1 and isinstance(st.targets[0], ast.Name):
                v = st.targets[0].id
                if v in self.params or v in self.captured or self.loads.get(v):
                    continue
                e = st.value
                if isinstance(e, ast.Constant) or (isinstance(e, ast.Name) and self.stable_name(e.id)):
                    if len(blk) == 1:
                        blk[i] = ast.copy_location(ast.Pass(), st)
                    else:
                        del blk[i]
                    self.bump("DEADSTORE")
                    return True
        # statements after one that always leaves the block are never run
        for i in range(len(blk) - 1):
            if isinstance(blk[i], (ast.Return, ast.Raise, ast.Break, ast.Continue)) and not any(isinstance(n, (ast.Yield, ast.YieldFrom)) for s_ in blk[i + 1:] for n in ast.walk(s_)):
                del blk[i + 1:]
                self.bump("DEADCODE")
                return True
        # `v = <literal>` overwritten further down the same block before anything can read it
        for i in range(len(blk) - 1):
            st = blk[i]
            if not (isinstance(st, ast.Assign) and len(st.targets) == 1 and isinstance(st.targets[0], ast.Name) and isinstance(st.value, ast.Constant)):
                continue
            v = st.targets[0].id
            if v in self.params and False or v in self.captured:
                continue
            if any(isinstance(t, ast.Try) and any(isinstance(n, ast.Name) and n.id == v for part in (t.handlers, t.finalbody) for x in part for n in ast.walk(x)) for t, _ in _fn_nodes(self.fn)):
                continue
            if any(isinstance(n, (ast.Global, ast.Nonlocal)) for n, _ in _fn_nodes(self.fn)):
                continue
            dead = False
            for s_ in blk[i + 1:]:
                mentions = [n for n in ast.walk(s_) if isinstance(n, ast.Name) and n.id == v]
                if not mentions:
                    if isinstance(s_, (ast.Return, ast.Raise)):
                        break            # (handled below)
                    continue
                if isinstance(s_, ast.Assign) and len(s_.targets) == 1 and not any(isinstance(n, ast.Name) and n.id == v for n in ast.walk(s_.value)):
                    tg = s_.targets[0]
                    if (isinstance(tg, ast.Name) and tg.id == v) or (isinstance(tg, (ast.Tuple, ast.List)) and any(isinstance(x, ast.Name) and x.id == v for x in tg.elts)
                                                                    and all(isinstance(x, ast.Name) for x in tg.elts)):
                        dead = True
                break
            if dead and not (blk is not self.fn.body and any(isinstance(n, (ast.Yield, ast.YieldFrom)) for n, _ in _fn_nodes(self.fn)) and False):
                del blk[i]
                self.bump("DEADSTORE")
                return True
        # `v = <literal>` directly before the function is left (`return` / `raise` that do not read v; no enclosing try-finally could read it either
        # when v is never read inside a finally block): the store dies with the frame
        for i in range(len(blk) - 1):
            st, nxt = blk[i], blk[i + 1]
            if isinstance(st, ast.Assign) and len(st.targets) == 1 and isinstance(st.targets[0], ast.Name) and isinstance(st.value, ast.Constant) \
                    and isinstance(nxt, (ast.Return, ast.Raise)) and not any(isinstance(n, ast.Name) and n.id == st.targets[0].id for n in ast.walk(nxt)):
                v = st.targets[0].id
                if v in self.params or v in self.captured:
                    continue
                in_finally = any(isinstance(t, ast.Try) and any(isinstance(n, ast.Name) and n.id == v for fb in t.finalbody for n in ast.walk(fb)) for t, _ in _fn_nodes(self.fn))
                if in_finally or any(isinstance(n, (ast.Global, ast.Nonlocal)) for n, _ in _fn_nodes(self.fn)):
                    continue
                del blk[i]
                self.bump("DEADSTORE")
                return True
        return False

    # -- KW --------------------------------------------------------------------------------------------------------
    def kw(self, blk):
        """f(a, p2=b) -> f(a, b) when f is a package class / function / method of this class whose next parameter is p2."""
        first = None
        a = self.fn.args
        if a.args and not any(_dec(d) == "staticmethod" for d in self.fn.decorator_list):
            first = a.args[0].arg
        for st in blk:
            for n in self._own_exprs(st):
                if not (isinstance(n, ast.Call) and n.keywords) or any(isinstance(x, ast.Starred) for x in n.args) or any(k.arg is None for k in n.keywords):
                    continue
                params = None
                f = n.func
                if isinstance(f, ast.Name) and f.id in SIGS and f.id not in self.params and not self.stores.get(f.id):
                    params = SIGS[f.id]
                elif isinstance(f, ast.Attribute) and isinstance(f.value, ast.Name) and first and f.value.id == first and f.attr in self.clsmethods and not self.stores.get(first):
                    params = self.clsmethods[f.attr]
                if not params:
                    continue
                rest = params[len(n.args):]
                if rest and n.keywords[0].arg == rest[0]:
                    n.args.append(n.keywords[0].value)
                    del n.keywords[0]
                    self.bump("KW")
                    return True
        return False

    # -- PROP ------------------------------------------------------------------------------------------------------
    def prop(self, blk):
        """`x.p` -> the expression a pure property p returns, with x for self (x a plain name or attribute chain)"""
        if not PURE_PROPS:
            return False
        for st in blk:
            for n in self._own_exprs(st):
                for fld, val in ast.iter_fields(n):
                    vals = val if isinstance(val, list) else [val]
                    for k, c in enumerate(vals):
                        if isinstance(c, ast.Attribute) and isinstance(c.ctx, ast.Load) and c.attr in PURE_PROPS and _is_chain(c.value) and self.fn.name != c.attr:
                            selfn, e = PURE_PROPS[c.attr]
                            recv = c.value
                            if any(isinstance(x, ast.Name) and x.id in IMMUTABLE_BUILTINS and (x.id in self.stores or x.id in self.params) for x in ast.walk(e)):
                                continue

                            class R(ast.NodeTransformer):
                                def visit_Name(self, x):
                                    return copy.deepcopy(recv) if x.id == selfn else x
                            new = ast.copy_location(R().visit(copy.deepcopy(e)), c)
                            ast.fix_missing_locations(new)
                            if isinstance(val, list):
                                val[k] = new
                            else:
                                setattr(n, fld, new)
                            self.bump("PROP")
                            return True
        return False

    # -- GETATTR ---------------------------------------------------------------------------------------------------
    def getsetattr(self, blk):
        """`getattr(x, 'name')` -> `x.name`; the statement `setattr(x, 'name', v)` -> `x.name = v` (a literal identifier; the builtins are not shadowed)"""
        if self.stores.get("getattr") or self.stores.get("setattr") or "getattr" in self.params or "setattr" in self.params:
            return False
        import keyword
        for i, st in enumerate(blk):
            if isinstance(st, ast.Expr) and isinstance(st.value, ast.Call) and isinstance(st.value.func, ast.Name) and st.value.func.id == "setattr" and len(st.value.args) == 3 and not st.value.keywords \
                    and isinstance(st.value.args[1], ast.Constant) and isinstance(st.value.args[1].value, str) and st.value.args[1].value.isidentifier() and not keyword.iskeyword(st.value.args[1].value) \
                    and not any(isinstance(a, ast.Starred) for a in st.value.args) and _is_chain(st.value.args[0]):
                tgt = ast.Attribute(value=st.value.args[0], attr=st.value.args[1].value, ctx=ast.Store())
                new = ast.copy_location(ast.Assign(targets=[tgt], value=st.value.args[2]), st)
                ast.fix_missing_locations(new)
                blk[i] = new
                self.bump("GETATTR")
                return True
            for n in self._own_exprs(st):
                for fld, val in ast.iter_fields(n):
                    vals = val if isinstance(val, list) else [val]
                    for k, c in enumerate(vals):
                        if isinstance(c, ast.Call) and isinstance(c.func, ast.Name) and c.func.id == "getattr" and len(c.args) == 2 and not c.keywords and isinstance(c.args[1], ast.Constant) \
                                and isinstance(c.args[1].value, str) and c.args[1].value.isidentifier() and not keyword.iskeyword(c.args[1].value) and not isinstance(c.args[0], ast.Starred):
                            new = ast.copy_location(ast.Attribute(value=c.args[0], attr=c.args[1].value, ctx=ast.Load()), c)
                            ast.fix_missing_locations(new)
                            if isinstance(val, list):
                                val[k] = new
                            else:
                                setattr(n, fld, new)
                            self.bump("GETATTR")
                            return True
        return False

    # -- CONSTFOLD -------------------------------------------------------------------------------------------------
    def constfold(self, blk):
        """integer arithmetic over literals; `a if <literal> else b` -> the arm"""
        import operator
        OPS = {ast.Add: operator.add, ast.Sub: operator.sub, ast.Mult: operator.mul, ast.BitOr: operator.or_, ast.BitAnd: operator.and_, ast.BitXor: operator.xor}
        for st in blk:
            for n in self._own_exprs(st):
                for fld, val in ast.iter_fields(n):
                    vals = val if isinstance(val, list) else [val]
                    for k, c in enumerate(vals):
                        new = None
                        if isinstance(c, ast.BinOp) and type(c.op) in OPS:
                            # a module-level integer name next to a literal operand counts as its value
                            mi = MODINTS.get(_CUR_MODNAME[0], {})
                            for side, other in (("left", "right"), ("right", "left")):
                                x, y = getattr(c, side), getattr(c, other)
                                if isinstance(x, ast.Name) and x.id in mi and x.id not in self.params and not self.stores.get(x.id) and isinstance(y, ast.Constant) and isinstance(y.value, int) and not isinstance(y.value, bool):
                                    setattr(c, side, ast.copy_location(ast.Constant(value=mi[x.id]), x))
                        if isinstance(c, ast.BinOp) and type(c.op) in OPS and all(isinstance(x, ast.Constant) and isinstance(x.value, int) and not isinstance(x.value, bool) for x in (c.left, c.right)):
                            new = ast.Constant(value=OPS[type(c.op)](c.left.value, c.right.value))
                        elif isinstance(c, ast.BinOp) and isinstance(c.op, (ast.Pow, ast.LShift, ast.RShift)) and all(isinstance(x, ast.Constant) and isinstance(x.value, int) and not isinstance(x.value, bool) for x in (c.left, c.right)) \
                                and 0 <= c.right.value <= 64 and abs(c.left.value) <= 1 << 64:
                            new = ast.Constant(value=c.left.value ** c.right.value if isinstance(c.op, ast.Pow) else c.left.value << c.right.value if isinstance(c.op, ast.LShift) else c.left.value >> c.right.value)
                        elif isinstance(c, ast.IfExp) and isinstance(c.test, ast.Constant):
                            new = c.body if c.test.value else c.orelse
                        if new is not None:
                            new = ast.copy_location(new, c)
                            if isinstance(val, list):
                                val[k] = new
                            else:
                                setattr(n, fld, new)
                            self.bump("CONSTFOLD")
                            return True
        return False

    # -- REVDISPLAY ------------------------------------------------------------------------------------------------
    def revdisplay(self, blk):
        """`(a, b)[::-1]` -> `(b, a)` for call-free elements (nothing to evaluate in another order); `(a, b)[k]` -> the element"""
        for st in blk:
            for n in ([st] if isinstance(st, (ast.Assign, ast.AugAssign, ast.Return, ast.Expr)) else []) + list(self._own_exprs(st)):
                for fld, val in ast.iter_fields(n):
                    vals = val if isinstance(val, list) else [val]
                    for k, c in enumerate(vals):
                        if isinstance(c, ast.Subscript) and isinstance(c.ctx, ast.Load) and isinstance(c.value, (ast.Tuple, ast.List)) and not any(isinstance(x, ast.Starred) or _has_call(x) for x in c.value.elts):
                            new = None
                            sl = c.slice
                            if isinstance(sl, ast.Slice) and sl.lower is None and sl.upper is None and isinstance(sl.step, ast.UnaryOp) and isinstance(sl.step.op, ast.USub) \
                                    and isinstance(sl.step.operand, ast.Constant) and sl.step.operand.value == 1:
                                new = type(c.value)(elts=list(reversed(c.value.elts)), ctx=ast.Load())
                            elif isinstance(sl, ast.Slice) and sl.lower is None and sl.upper is None and isinstance(sl.step, ast.Constant) and sl.step.value == -1:
                                new = type(c.value)(elts=list(reversed(c.value.elts)), ctx=ast.Load())
                            elif isinstance(sl, ast.Constant) and isinstance(sl.value, int) and not isinstance(sl.value, bool) and -len(c.value.elts) <= sl.value < len(c.value.elts):
                                new = c.value.elts[sl.value]
                            if new is not None:
                                new = ast.copy_location(new, c)
                                ast.fix_missing_locations(new)
                                if isinstance(val, list):
                                    val[k] = new
                                else:
                                    setattr(n, fld, new)
                                self.bump("REVDISPLAY")
                                return True
        return False

    # -- LENCOMP ---------------------------------------------------------------------------------------------------
    def lencomp(self, blk):
        """`len([E for .. if C])` -> `sum((1 for .. if C))` when E is call-free (it is computed only to be counted)"""
        if self.stores.get("len") or self.stores.get("sum") or "len" in self.params or "sum" in self.params:
            return False
        for st in blk:
            for n in self._own_exprs(st):
                if isinstance(n, ast.Call) and isinstance(n.func, ast.Name) and n.func.id == "len" and len(n.args) == 1 and not n.keywords:
                    a = n.args[0]
                    if isinstance(a, ast.Call) and isinstance(a.func, ast.Name) and a.func.id in ("list", "tuple") and len(a.args) == 1 and not a.keywords and isinstance(a.args[0], ast.GeneratorExp):
                        a = a.args[0]
                    if isinstance(a, (ast.ListComp, ast.GeneratorExp)) and (isinstance(a, ast.ListComp) or a is not n.args[0]) and not _has_call(a.elt) \
                            and not any(g.is_async for g in a.generators) and not any(isinstance(x, (ast.Subscript, ast.Attribute)) for x in ast.walk(a.elt)):
                        n.func.id = "sum"
                        n.args[0] = ast.copy_location(ast.GeneratorExp(elt=ast.copy_location(ast.Constant(value=1), a), generators=a.generators), a)
                        self.bump("LENCOMP")
                        return True
        return False

    # -- STAR ------------------------------------------------------------------------------------------------------
    def star(self, blk):
        """f(*(a, b)) -> f(a, b)"""
        for st in blk:
            for n in self._own_exprs(st):
                if isinstance(n, ast.Call):
                    for k, a in enumerate(n.args):
                        if isinstance(a, ast.Starred) and isinstance(a.value, (ast.Tuple, ast.List)) and not any(isinstance(x, ast.Starred) for x in a.value.elts):
                            n.args[k:k + 1] = a.value.elts
                            self.bump("STAR")
                            return True
                    # self.<attr>.<method>(*f(..)): the starred value is the result of a package function that always returns an n-tuple, the
                    # method takes exactly n arguments  ->  the result is bound to a temporary first (the attribute look-up has no effect)
                    ps0 = self._attr_method_params(n.func)
                    stable_f = ps0 is not None and f_is_stable_attr(self, n.func)
                    if ps0 is None:
                        ps0 = self._record_callee_params(n.func)
                        stable_f = ps0 is not None
                    if ps0 is not None and len(n.args) == 1 and not n.keywords and isinstance(n.args[0], ast.Starred) and ps0[1] == 0 and ps0[0] \
                            and isinstance(st, (ast.Expr, ast.Assign)) and (st.value is n or (isinstance(st.value, ast.Await) and st.value.value is n)):
                        sv = n.args[0].value
                        inner = sv.value if isinstance(sv, ast.Await) else sv
                        if isinstance(inner, ast.Call) and self._call_arity(inner) == len(ps0[0]) and stable_f:
                            k_ = 1
                            while ("_st%d" % k_) in self.stores or ("_st%d" % k_) in self.loads:
                                k_ += 1
                            tmp = "_st%d" % k_
                            self.fresh.add(tmp)
                            pre = ast.copy_location(ast.Assign(targets=[ast.Name(id=tmp, ctx=ast.Store())], value=sv), st)
                            n.args[:] = [ast.copy_location(ast.Subscript(value=ast.Name(id=tmp, ctx=ast.Load()), slice=ast.Constant(value=i_), ctx=ast.Load()), n.args[0]) for i_ in range(len(ps0[0]))]
                            ast.fix_missing_locations(pre)
                            ast.fix_missing_locations(n)
                            blk.insert(blk.index(st), pre)
                            self.bump("STAR")
                            return True
                    # self.<attr>.<method>(*v): the attribute is an instance of a package class whose method takes exactly n arguments
                    ps = self._attr_method_params(n.func)
                    if ps is not None and len(n.args) == 1 and not n.keywords and isinstance(n.args[0], ast.Starred) and isinstance(n.args[0].value, ast.Name) \
                            and ps[1] == 0 and ps[0] and n.args[0].value.id not in self.captured:
                        v = n.args[0].value.id
                        n.args[:] = [ast.copy_location(ast.Subscript(value=ast.Name(id=v, ctx=ast.Load()), slice=ast.Constant(value=i), ctx=ast.Load()), n.args[0]) for i in range(len(ps[0]))]
                        ast.fix_missing_locations(n)
                        self.bump("STAR")
                        return True
        return False

    def _record_callee_params(self, f):
        """(parameter names, number of defaults) when f is the constructor of a record class, or a method of a local bound once to a record object"""
        def sig(d):
            a = d.args
            if a.vararg or a.kwarg or a.kwonlyargs or a.posonlyargs:
                return None
            return [x.arg for x in a.args][1:], len(a.defaults)
        if isinstance(f, ast.Name) and f.id in RECORDS and f.id not in self.params and not self.stores.get(f.id):
            return sig(RECORDS[f.id][2]["__init__"][0])
        if isinstance(f, ast.Attribute) and isinstance(f.value, ast.Name):
            v = f.value.id
            sts = self.stores.get(v, [])
            if v in self.params or v in self.captured or len(sts) != 1:
                return None
            for b in _all_blocks(self.fn):
                for s_ in b:
                    if isinstance(s_, ast.Assign) and len(s_.targets) == 1 and s_.targets[0] is sts[0] and isinstance(s_.value, ast.Call) and isinstance(s_.value.func, ast.Name) \
                            and s_.value.func.id in RECORDS and not self.stores.get(s_.value.func.id):
                        hm = RECORDS[s_.value.func.id][2].get(f.attr)
                        return sig(hm[0]) if hm is not None else None
        return None

    def _attr_method_params(self, f):
        a = self.fn.args
        first = a.args[0].arg if a.args and not any(_dec(d) == "staticmethod" for d in self.fn.decorator_list) else None
        if first and isinstance(f, ast.Attribute) and isinstance(f.value, ast.Attribute) and isinstance(f.value.value, ast.Name) and f.value.value.id == first \
                and not self.stores.get(first) and f.value.attr in self.attrtypes:
            return CLASS_METHODS.get(self.attrtypes[f.value.attr], {}).get(f.attr)
        return None

    # -- CALLSEL ---------------------------------------------------------------------------------------------------
    def callsel(self, blk):
        """`f = self.a.m1 if c else self.a.m2 ; ... f(x) ...`  ->  `... (self.a.m1(x) if c else self.a.m2(x)) ...`   when f is bound
        once, only ever called, c is call-free over names that never change, and the objects the methods are taken from are
        not rebound in this function (looking a method up early or late then gives the same bound method)."""
        a = self.fn.args
        first = a.args[0].arg if a.args and not any(_dec(d) == "staticmethod" for d in self.fn.decorator_list) else None
        if not first or self.stores.get(first):
            return False
        for i, st in enumerate(blk):
            if not (isinstance(st, ast.Assign) and len(st.targets) == 1 and isinstance(st.targets[0], ast.Name) and isinstance(st.value, ast.IfExp)):
                continue
            f = st.targets[0].id
            if len(self.stores.get(f, ())) != 1 or f in self.captured or f in self.params:
                continue
            ie = st.value

            def chain(e):
                parts = []
                while isinstance(e, ast.Attribute):
                    parts.append(e.attr)
                    e = e.value
                return parts[::-1] if isinstance(e, ast.Name) and e.id == first and parts else None
            ca, cb = chain(ie.body), chain(ie.orelse)
            if ca is None or cb is None or not self.pure_stable(ie.test):
                continue
            # no store to any prefix attribute of the chains in this function
            prefixes = set(x for c in (ca, cb) for x in c[:-1])
            rebound = False
            for n, _ins in _fn_nodes(self.fn):
                if isinstance(n, ast.Attribute) and isinstance(n.ctx, (ast.Store, ast.Del)) and n.attr in prefixes | {ca[-1], cb[-1]}:
                    rebound = True
            if rebound:
                continue
            loads = self.loads.get(f, [])
            calls = {}
            for n, _ins in _fn_nodes(self.fn):
                if isinstance(n, ast.Call) and isinstance(n.func, ast.Name) and n.func.id == f:
                    calls[id(n.func)] = n
            if not loads or any(id(l) not in calls for l in loads):
                continue
            if any(any(isinstance(x, ast.Starred) for x in c.args) or any(k.arg is None for k in c.keywords) for c in calls.values()):
                continue
            import copy
            for c in list(calls.values()):
                alt = ast.Call(func=copy.deepcopy(ie.orelse), args=copy.deepcopy(c.args), keywords=copy.deepcopy(c.keywords))
                new = ast.IfExp(test=copy.deepcopy(ie.test), body=ast.Call(func=copy.deepcopy(ie.body), args=c.args, keywords=c.keywords), orelse=alt)
                ast.copy_location(new, c)
                _replace_node(self.fn, c, new)
                ast.fix_missing_locations(new)
            del blk[i]
            self.bump("CALLSEL")
            return True
        return False

    # -- RETSPLIT --------------------------------------------------------------------------------------------------
    def retsplit(self, blk):
        """`return a if c else b` -> `if c: return a` ; `return b`"""
        for i, st in enumerate(blk):
            if isinstance(st, ast.Return) and isinstance(st.value, ast.BinOp):
                # `return (a if c else b) & K` -> `return (a & K) if c else (b & K)`  (K a literal: nothing else is evaluated)
                bo = st.value
                for side, other in (("left", "right"), ("right", "left")):
                    x, k = getattr(bo, side), getattr(bo, other)
                    if isinstance(x, ast.IfExp) and isinstance(k, ast.Constant):
                        def mk(arm):
                            nb = ast.BinOp(left=arm, op=bo.op, right=copy.deepcopy(k)) if side == "left" else ast.BinOp(left=copy.deepcopy(k), op=bo.op, right=arm)
                            return ast.copy_location(nb, bo)
                        st.value = ast.copy_location(ast.IfExp(test=x.test, body=mk(x.body), orelse=mk(x.orelse)), bo)
                        self.bump("RETSPLIT")
                        return True
            if isinstance(st, ast.Return) and st.value is not None and not isinstance(st.value, ast.IfExp):
                # `return F(a if c else b)` / `return F(a if c else b) & K` for builtin F: the conditional is the first thing evaluated  ->  the context
                # is copied onto both arms
                path, cur = [], st.value
                for _d in range(4):
                    if isinstance(cur, ast.BinOp) and isinstance(cur.right, ast.Constant) and not isinstance(cur.left, ast.Constant):
                        path.append((cur, "left"))
                        cur = cur.left
                    elif isinstance(cur, ast.BinOp) and isinstance(cur.left, ast.Constant):
                        path.append((cur, "right"))
                        cur = cur.right
                    elif isinstance(cur, ast.Call) and isinstance(cur.func, ast.Name) and cur.func.id in PURE_BUILTINS and not self.stores.get(cur.func.id) and cur.func.id not in self.params \
                            and cur.args and not cur.keywords and not isinstance(cur.args[0], ast.Starred) and all(isinstance(a, ast.Constant) for a in cur.args[1:]):
                        path.append((cur, "arg0"))
                        cur = cur.args[0]
                    else:
                        break
                if path and isinstance(cur, ast.IfExp) and any(isinstance(p_[0], ast.Call) for p_ in path):
                    def rebuild(arm):
                        e = arm
                        for node, where in reversed(path):
                            c2 = copy.copy(node)
                            if where == "left":
                                c2.left = e
                            elif where == "right":
                                c2.right = e
                            else:
                                c2.args = [e] + [copy.deepcopy(a) for a in node.args[1:]]
                                c2.func = copy.deepcopy(node.func)
                            e = ast.copy_location(c2, node)
                        return e
                    r1 = ast.copy_location(ast.Return(value=rebuild(cur.body)), st)
                    r2 = ast.copy_location(ast.Return(value=rebuild(copy.deepcopy(cur.orelse))), st)
                    blk[i:i + 1] = [ast.copy_location(ast.If(test=cur.test, body=[r1], orelse=[]), st), r2]
                    ast.fix_missing_locations(blk[i])
                    ast.fix_missing_locations(blk[i + 1])
                    self.bump("RETSPLIT")
                    return True
            if isinstance(st, ast.Return) and isinstance(st.value, ast.IfExp):
                v = st.value
                r1 = ast.copy_location(ast.Return(value=v.body), st)
                r2 = ast.copy_location(ast.Return(value=v.orelse), st)
                blk[i:i + 1] = [ast.copy_location(ast.If(test=v.test, body=[r1], orelse=[]), st), r2]
                self.bump("RETSPLIT")
                return True
            if isinstance(st, ast.Raise) and isinstance(st.exc, ast.IfExp) and (st.cause is None or not _has_call(st.cause)):
                # `raise (a if c else b)` -> `if c: raise a` ; `raise b`   (one arm is evaluated, then raised, either way)
                v = st.exc
                r1 = ast.copy_location(ast.Raise(exc=v.body, cause=copy.deepcopy(st.cause)), st)
                r2 = ast.copy_location(ast.Raise(exc=v.orelse, cause=st.cause), st)
                blk[i:i + 1] = [ast.copy_location(ast.If(test=v.test, body=[r1], orelse=[]), st), r2]
                self.bump("RETSPLIT")
                return True
        return False

    def _call_arity(self, c):
        """n when the call is to a package function / method known to return n-tuples only"""
        if not (isinstance(c, ast.Call) and isinstance(c.func, ast.Attribute)):
            return None
        r = c.func.value
        if isinstance(r, ast.Name) and r.id == self._self_name() and not self.stores.get(r.id):
            return RET_ARITY.get(c.func.attr)
        if isinstance(r, ast.Attribute) and isinstance(r.value, ast.Name) and r.value.id == self._self_name() and r.attr in self.attrtypes:
            return RET_ARITY_CLS.get((self.attrtypes[r.attr], c.func.attr))
        return None

    # -- UNINDEX ---------------------------------------------------------------------------------------------------
    def unindex(self, blk):
        """`v = self.f(..)[k]`  ->  `_, .., v, .., _ = self.f(..)`   for a package function that always returns an n-tuple (`await` likewise):
        taking one element of the result and unpacking it are the same thing when the length is known."""
        for i, st in enumerate(blk):
            # p = self.f(..) ; .. p[0] .. p[2] ..   (p read only through literal indices)  ->  p__0, _, p__2, _ = self.f(..) ; .. p__0 .. p__2 ..
            if isinstance(st, ast.Assign) and len(st.targets) == 1 and isinstance(st.targets[0], ast.Name):
                pn = st.targets[0].id
                c = st.value.value if isinstance(st.value, ast.Await) else st.value
                n = self._call_arity(c)
                if n is not None and len(self.stores.get(pn, ())) == 1 and pn not in self.captured and pn not in self.params and self.loads.get(pn):
                    uses = {}
                    ok = True
                    subs = {}
                    for x, _ins in _fn_nodes(self.fn):
                        if isinstance(x, ast.Subscript) and isinstance(x.value, ast.Name) and x.value.id == pn and isinstance(x.ctx, ast.Load) \
                                and isinstance(x.slice, ast.Constant) and isinstance(x.slice.value, int) and not isinstance(x.slice.value, bool) and -n <= x.slice.value < n:
                            subs[id(x.value)] = x
                    if all(id(l) in subs for l in self.loads[pn]):
                        elts = [ast.Name(id="_", ctx=ast.Store()) for _x in range(n)]
                        for x in subs.values():
                            k = x.slice.value % n
                            nm = "%s__%d" % (pn, k)
                            if pn in self.fresh:
                                self.fresh.add(nm)
                            elts[k] = ast.Name(id=nm, ctx=ast.Store())
                        for x in list(subs.values()):
                            _replace_node(self.fn, x, ast.copy_location(ast.Name(id="%s__%d" % (pn, x.slice.value % n), ctx=ast.Load()), x))
                        st.targets = [ast.copy_location(ast.Tuple(elts=elts, ctx=ast.Store()), st.targets[0])]
                        ast.fix_missing_locations(st)
                        self.bump("UNINDEX")
                        return True
            if not (isinstance(st, ast.Assign) and len(st.targets) == 1 and isinstance(st.targets[0], (ast.Name, ast.Attribute)) and isinstance(st.value, ast.Subscript)):
                continue
            sub = st.value
            k = sub.slice.value if isinstance(sub.slice, ast.Constant) else None
            if not (isinstance(k, int) and not isinstance(k, bool)):
                continue
            c = sub.value.value if isinstance(sub.value, ast.Await) else sub.value
            n = self._call_arity(c)
            if n is None or not (-n <= k < n) or self.stores.get("_") and "_" in self.captured:
                continue
            k = k % n
            elts = [ast.Name(id="_", ctx=ast.Store()) for _x in range(n)]
            tgt = st.targets[0]
            elts[k] = tgt
            st.targets = [ast.copy_location(ast.Tuple(elts=elts, ctx=ast.Store()), tgt)]
            st.value = sub.value
            ast.fix_missing_locations(st)
            self.bump("UNINDEX")
            return True
        return False

    # -- YIELDSPLIT ------------------------------------------------------------------------------------------------
    def yieldsplit(self, blk):
        """`yield from (A if c else B)` -> `if c: yield from A else: yield from B`;  `for x in (A if c else B): S` -> the loop written once
        per arm (S small).  The test is evaluated first in both spellings, then exactly one of A / B."""
        for i, st in enumerate(blk):
            if isinstance(st, ast.Expr) and isinstance(st.value, ast.YieldFrom) and isinstance(st.value.value, ast.IfExp):
                ie = st.value.value
                a = ast.copy_location(ast.Expr(value=ast.copy_location(ast.YieldFrom(value=ie.body), st)), st)
                b = ast.copy_location(ast.Expr(value=ast.copy_location(ast.YieldFrom(value=ie.orelse), st)), st)
                blk[i] = ast.copy_location(ast.If(test=ie.test, body=[a], orelse=[b]), st)
                self.bump("YIELDSPLIT")
                return True
            if isinstance(st, (ast.For, ast.AsyncFor)) and isinstance(st.iter, ast.IfExp) and not st.orelse and _size(st.body) <= 6:
                ie = st.iter
                la = type(st)(target=copy.deepcopy(st.target), iter=ie.body, body=copy.deepcopy(st.body), orelse=[])
                lb = type(st)(target=st.target, iter=ie.orelse, body=st.body, orelse=[])
                for x in (la, lb):
                    ast.copy_location(x, st)
                    ast.fix_missing_locations(x)
                blk[i] = ast.copy_location(ast.If(test=ie.test, body=[la], orelse=[lb]), st)
                self.bump("YIELDSPLIT")
                return True
        return False

    # -- SPLIT -----------------------------------------------------------------------------------------------------
    def split(self, blk):
        """`a, b = x, y` -> `a = x; b = y` when no target is read by a later element (parallel == sequential)."""
        for i, st in enumerate(blk):
            if not (isinstance(st, ast.Assign) and len(st.targets) == 1 and isinstance(st.targets[0], ast.Tuple) and isinstance(st.value, ast.Tuple)):
                continue
            ts, vs = st.targets[0].elts, st.value.elts
            if len(ts) != len(vs) or any(isinstance(x, ast.Starred) for x in ts + vs):
                continue
            if not all(isinstance(t, (ast.Name, ast.Attribute)) for t in ts):
                continue
            ok = True
            for a in range(len(ts)):
                tnames = {n.id for n in ast.walk(ts[a]) if isinstance(n, ast.Name)}
                tattr = ts[a].attr if isinstance(ts[a], ast.Attribute) else None
                for b in range(a + 1, len(vs)):
                    for n in ast.walk(vs[b]):
                        if isinstance(n, ast.Name) and isinstance(ts[a], ast.Name) and n.id in tnames:
                            ok = False
                        if tattr is not None and isinstance(n, ast.Attribute) and n.attr == tattr:
                            ok = False
                        if isinstance(n, (ast.Call, ast.Await)) and tattr is not None:
                            ok = False
            if not ok:
                continue
            new = []
            for t, v in zip(ts, vs):
                a_ = ast.Assign(targets=[t], value=v)
                ast.copy_location(a_, st)
                new.append(a_)
            blk[i:i + 1] = new
            self.bump("SPLIT")
            return True
        return False

    # -- SINK ------------------------------------------------------------------------------------------------------
    def sink(self, blk):
        for i, st in enumerate(blk[:-1]):
            nxt = blk[i + 1]
            if isinstance(st, ast.If) and isinstance(nxt, ast.Return) and not always_exits(st.body) and not (st.orelse and always_exits(st.orelse)):
                if nxt.value is not None and _has_call_other_than_pure(nxt.value):
                    continue
                if i + 2 != len(blk):
                    continue     # dead code after the return: leave alone
                # only worthwhile when an arm assigns something the return reads
                rd = {n.id for n in ast.walk(nxt) if isinstance(n, ast.Name)}
                wr = set()
                for s in st.body + st.orelse:
                    wr |= _stmt_effects(s)[0]
                if not (rd & wr):
                    continue
                st.body.append(copy.deepcopy(nxt))
                st.orelse.append(copy.deepcopy(nxt))
                del blk[i + 1]
                self.bump("SINK")
                return True
        return False

    # -- ROT -------------------------------------------------------------------------------------------------------
    def rot(self, blk):
        for i in range(1, len(blk)):
            lp = blk[i]
            if not (isinstance(lp, ast.While) and not lp.orelse and len(lp.body) >= 1 and not _is_const_true(lp.test)):
                continue
            # `v = f(.., K, ..)` ; `while T(v): .. ; v = f(.., v, ..)`: the priming call is the loop's call with v = K   ->   `v = K ; v = f(.., v, ..)`
            pre, last = blk[i - 1], lp.body[-1]
            if isinstance(pre, ast.Assign) and isinstance(last, ast.Assign) and len(pre.targets) == 1 and len(last.targets) == 1 and isinstance(pre.targets[0], ast.Name) \
                    and isinstance(last.targets[0], ast.Name) and pre.targets[0].id == last.targets[0].id and _dump(pre) != _dump(last):
                v = pre.targets[0].id
                c1 = pre.value.value if isinstance(pre.value, ast.Await) else pre.value
                c2 = last.value.value if isinstance(last.value, ast.Await) else last.value
                if isinstance(c1, ast.Call) and isinstance(c2, ast.Call) and isinstance(pre.value, ast.Await) == isinstance(last.value, ast.Await) and _dump(c1.func) == _dump(c2.func) \
                        and len(c1.args) == len(c2.args) and [k.arg for k in c1.keywords] == [k.arg for k in c2.keywords] and v not in self.params and v not in self.captured:
                    pairs = list(zip(c1.args, c2.args)) + [(a.value, b.value) for a, b in zip(c1.keywords, c2.keywords)]
                    diff = [(a, b) for a, b in pairs if _dump(a) != _dump(b)]
                    before = [n for st_ in blk[:i - 1] for n in ast.walk(st_) if isinstance(n, ast.Name) and n.id == v]
                    if len(diff) == 1 and isinstance(diff[0][0], ast.Constant) and isinstance(diff[0][1], ast.Name) and diff[0][1].id == v and not before \
                            and not any(isinstance(n, ast.Name) and n.id == v for a, b in pairs if _dump(a) == _dump(b) for n in ast.walk(a)):
                        init = ast.copy_location(ast.Assign(targets=[ast.Name(id=v, ctx=ast.Store())], value=diff[0][0]), pre)
                        ast.fix_missing_locations(init)
                        blk[i - 1:i] = [init, copy.deepcopy(last)]
                        self.bump("PRIMEVAR")
                        return True
            compound = (ast.If, ast.While, ast.For, ast.Try, ast.With, ast.FunctionDef, ast.AsyncFunctionDef, ast.AsyncFor, ast.AsyncWith, ast.ClassDef)
            # the longest run (up to three simple statements) repeated before the loop and at the end of its body
            k = 0
            for kk in (3, 2, 1):
                if kk <= i and kk <= len(lp.body) and all(not isinstance(x, compound) for x in blk[i - kk:i]) \
                        and [_dump(x) for x in blk[i - kk:i]] == [_dump(x) for x in lp.body[-kk:]] and _has_call(blk[i - kk]):
                    k = kk
                    break
            if not k:
                continue          # only worthwhile for I/O statements (a read repeated before and at the end of the loop)
            if _contains_own(lp.body, ast.Continue):
                continue
            brk = ast.copy_location(ast.Break(), lp)
            guard = ast.copy_location(ast.If(test=negate(lp.test), body=[brk], orelse=[]), lp)
            true = ast.copy_location(ast.Constant(value=True), lp.test)
            lp.body = lp.body[-k:] + [guard] + lp.body[:-k]
            lp.test = true
            del blk[i - k:i]
            self.bump("ROT")
            return True
        return False

    # -- FORELSE ---------------------------------------------------------------------------------------------------
    def forelse(self, blk):
        """`for ..: .. break .. else: E` ; R   ->   `for ..: .. R .. ` ; E ; R     when R (small, call-free) always leaves
        the function and the loop has one break; without any break the else-block simply follows the loop."""
        for i, lp in enumerate(blk):
            if not (isinstance(lp, (ast.For, ast.AsyncFor, ast.While)) and lp.orelse):
                continue
            sites = _own_breaks(lp.body)
            if not sites:
                blk[i + 1:i + 1] = lp.orelse
                lp.orelse = []
                self.bump("FORELSE")
                return True
            rest = blk[i + 1:]
            if len(sites) != 1 or sites[0][0] is None or not always_leaves_function(rest) or _size(rest) > 2:
                continue
            if _contains_own(rest, ast.Break) or _contains_own(rest, ast.Continue):
                continue
            if any(_has_call_other_than_pure(s) for s in rest):
                continue
            owner, idx = sites[0]
            owner[idx:idx + 1] = copy.deepcopy(rest)
            blk[i + 1:i + 1] = lp.orelse
            lp.orelse = []
            self.bump("FORELSE")
            return True
        return False

    # -- BRK -------------------------------------------------------------------------------------------------------
    def brk(self, blk, top):
        for i, lp in enumerate(blk):
            if not (isinstance(lp, ast.While) and not lp.orelse and _is_const_true(lp.test)):
                continue
            rest = blk[i + 1:]
            if not (top or always_leaves_function(rest)):
                continue
            sites = _own_breaks(lp.body)
            if len(sites) != 1:
                continue
            owner, idx = sites[0]
            if not rest and not top:
                continue
            if _contains_own(rest, ast.Break) or _contains_own(rest, ast.Continue):
                continue      # they would bind to this loop once moved into it
            if _size(rest) > 6:
                continue
            tail = list(rest)
            if not always_leaves_function(tail):
                tail.append(ast.copy_location(ast.Return(value=None), owner[idx]))
            if not rest and top:
                # `break` with nothing after the loop == `return`
                pass
            owner[idx:idx + 1] = tail
            del blk[i + 1:]
            self.bump("BRK")
            return True
        return False

    # -- WTOP ------------------------------------------------------------------------------------------------------
    def wtop(self, blk):
        """`while True: if c: E; B`  ->  `while not c: B` ; E      when the `if` at the top of the body is the only way out of
        the loop (E ends in the loop's only break, or leaves the function, and B has no break)."""
        for i, lp in enumerate(blk):
            if not (isinstance(lp, ast.While) and not lp.orelse and _is_const_true(lp.test) and len(lp.body) >= 2):
                continue
            top = lp.body[0]
            if not (isinstance(top, ast.If) and not top.orelse and top.body):
                continue
            rest_body = lp.body[1:]
            if _own_breaks(rest_body):
                continue
            inner = _own_breaks(top.body)
            if any(o is None for o, _ in inner):
                continue
            if len(inner) == 1 and inner[0][0] is top.body and inner[0][1] == len(top.body) - 1:
                tail = top.body[:-1]
            elif not inner and always_leaves_function(top.body):
                tail = top.body
            else:
                continue
            if _contains_own(tail, ast.Continue):
                continue
            if any(isinstance(n, ast.Yield) for st in [top.test] for n in ast.walk(st)):
                continue
            lp.test = negate(top.test)
            lp.body = rest_body
            blk[i + 1:i + 1] = tail
            self.bump("WTOP")
            return True
        return False

    # -- TESTSPLIT -------------------------------------------------------------------------------------------------
    def _decide(self, test, v, e):
        """truth of `test` (a test of the name v alone) when v has just been bound to expression e; None if unknown."""
        def none_ness(x):
            if isinstance(x, ast.Constant):
                return x.value is None
            if isinstance(x, (ast.Tuple, ast.List, ast.Dict, ast.Set, ast.JoinedStr, ast.ListComp, ast.DictComp, ast.SetComp, ast.GeneratorExp, ast.Lambda)):
                return False
            if isinstance(x, ast.Call) and isinstance(x.func, ast.Attribute) and isinstance(x.func.value, ast.Name) and x.func.value.id == "exceptions" \
                    and "exceptions" in self.modconsts and not self.stores.get("exceptions") and x.func.attr[:1].isupper():
                return False           # instantiating an exception class of the package
            return None

        def truth(x):
            if isinstance(x, ast.Constant):
                return bool(x.value)
            if isinstance(x, (ast.Tuple, ast.List, ast.Set)) and not any(isinstance(y, ast.Starred) for y in x.elts):
                return bool(x.elts)
            if isinstance(x, ast.Dict):
                return bool(x.keys)
            if none_ness(x) is False and isinstance(x, ast.Call):
                return True            # exception instances are truthy
            return None
        t = test
        pol = True
        while isinstance(t, ast.UnaryOp) and isinstance(t.op, ast.Not):
            t, pol = t.operand, not pol
        if isinstance(t, ast.Name) and t.id == v:
            r = truth(e)
            return None if r is None else (r == pol)
        if isinstance(t, ast.Compare) and len(t.ops) == 1 and isinstance(t.left, ast.Name) and t.left.id == v and isinstance(t.comparators[0], ast.Constant) and t.comparators[0].value is None \
                and isinstance(t.ops[0], (ast.Is, ast.IsNot)):
            r = none_ness(e)
            if r is None:
                return None
            return (r if isinstance(t.ops[0], ast.Is) else not r) == pol
        return None

    def testsplit(self, blk):
        """`v = X if c else Y` ; `if T(v): S1 else: S2`   ->   `if c: v = X ; <S1 or S2> else: v = Y ; <S1 or S2>`   when T tests v
        alone and both X and Y decide it (or are conditionals themselves, split in turn): the decision taken when v was computed
        is the decision the following test rediscovers."""
        import copy
        for i in range(len(blk) - 1):
            st, nx = blk[i], blk[i + 1]
            if not (isinstance(st, ast.Assign) and len(st.targets) == 1 and isinstance(st.targets[0], ast.Name) and isinstance(st.value, ast.IfExp) and isinstance(nx, ast.If)):
                continue
            v = st.targets[0].id
            if v in self.captured:
                continue
            ie = st.value
            if any(isinstance(n, ast.Name) and n.id == v for n in ast.walk(ie)):
                continue
            arms = []
            for e in (ie.body, ie.orelse):
                arms.append((e, self._decide(nx.test, v, e)))
            if all(d is None for _e, d in arms):
                continue          # (an arm that decides nothing keeps the test)
            # `if T: <leaves>` followed by the rest of the block: the rest is the else-arm
            absorb = not nx.orelse and always_exits(nx.body) and len(blk) > i + 2 and _size(blk[i + 2:]) <= 12
            if absorb:
                nx = ast.copy_location(ast.If(test=nx.test, body=nx.body, orelse=blk[i + 2:]), nx)
            if _size(nx.body) + _size(nx.orelse) > 60:
                continue
            new_arms = []
            for e, d in arms:
                asg = ast.copy_location(ast.Assign(targets=[ast.Name(id=v, ctx=ast.Store())], value=e), st)
                if d is None:
                    cont = [copy.deepcopy(nx)]
                else:
                    cont = copy.deepcopy(nx.body if d else nx.orelse)
                new_arms.append([asg] + cont)
            new = ast.copy_location(ast.If(test=ie.test, body=new_arms[0], orelse=new_arms[1]), st)
            ast.fix_missing_locations(new)
            if absorb:
                blk[i:] = [new]
            else:
                blk[i:i + 2] = [new]
            self.bump("TESTSPLIT")
            return True
        return False

    # -- WITHSINK --------------------------------------------------------------------------------------------------
    def withsink(self, blk):
        """`with lock: B` ; `if v: return v`   ->   `with lock: B ; if v: return v`     (v local, the test and the value call-free,
        the context managers plain objects such as locks, which do not swallow exceptions): returning from inside the block
        releases the lock just the same."""
        for i in range(len(blk) - 1):
            w, nx = blk[i], blk[i + 1]
            if not isinstance(w, (ast.With, ast.AsyncWith)) or not isinstance(nx, ast.If) or nx.orelse or len(nx.body) != 1 or not isinstance(nx.body[0], ast.Return):
                continue
            if not all(it.optional_vars is None and _is_chain(it.context_expr) for it in w.items):
                continue
            exprs = [nx.test] + ([nx.body[0].value] if nx.body[0].value is not None else [])
            if any(_has_call(e) or any(isinstance(n, (ast.Attribute, ast.Subscript, ast.Await, ast.Yield, ast.YieldFrom, ast.NamedExpr)) for n in ast.walk(e)) for e in exprs):
                continue
            names = {n.id for e in exprs for n in ast.walk(e) if isinstance(n, ast.Name)}
            if any(n in self.captured or (n not in self.params and not self.stores.get(n)) for n in names):
                continue             # only locals / parameters
            if not w.body or always_exits(w.body):
                continue
            w.body.append(nx)
            del blk[i + 1]
            self.bump("WITHSINK")
            return True
        return False

    # -- DOWHILE ---------------------------------------------------------------------------------------------------
    def dowhile(self, blk):
        """`v = None ; while v != K: B`  ->  `v = None ; while True: B ; if not (v != K): break`   when the test is decided
        true on entry by the constant just assigned (K a literal or a non-None package constant), B has no `continue`."""
        for i in range(len(blk) - 1):
            a, lp = blk[i], blk[i + 1]
            if not (isinstance(a, ast.Assign) and len(a.targets) == 1 and isinstance(a.targets[0], ast.Name) and isinstance(a.value, ast.Constant)):
                continue
            if not (isinstance(lp, ast.While) and not lp.orelse and isinstance(lp.test, ast.Compare) and len(lp.test.ops) == 1):
                continue
            v, c0 = a.targets[0].id, a.value.value
            t = lp.test
            if c0 is None and isinstance(t.ops[0], ast.NotIn) and isinstance(t.left, ast.Name) and t.left.id == v and isinstance(t.comparators[0], ast.Name) \
                    and (self.fn.name, t.comparators[0].id) in NONNULL_LIST_PARAMS and t.comparators[0].id in self.params and not self.stores.get(t.comparators[0].id) \
                    and not _contains_own(lp.body, ast.Continue):
                # `v = None ; while v not in ids:` where every caller passes a display of non-None constants for `ids`: the loop is entered
                brk = ast.If(test=negate(lp.test), body=[ast.Break()], orelse=[])
                ast.copy_location(brk, lp)
                ast.fix_missing_locations(brk)
                lp.test = ast.copy_location(ast.Constant(value=True), lp.test)
                lp.body = lp.body + [brk]
                self.bump("DOWHILE")
                return True
            if isinstance(t.left, ast.Name) and t.left.id == v:
                other = t.comparators[0]
            elif isinstance(t.comparators[0], ast.Name) and t.comparators[0].id == v:
                other = t.left
            else:
                continue
            if isinstance(other, ast.Constant):
                k_known, k = True, other.value
            elif _dump(other) in NONNULL_CONSTS:
                k_known, k = False, None          # some value that is not None
            else:
                continue
            op = t.ops[0]
            if k_known:
                same = (c0 is k) if (c0 is None or k is None) else (type(c0) is type(k) and c0 == k)
                if not (c0 is None or k is None or type(c0) is type(k)):
                    continue
            else:
                if c0 is not None:
                    continue
                same = False
            if isinstance(op, (ast.NotEq, ast.IsNot)):
                enters = not same
            elif isinstance(op, (ast.Eq, ast.Is)):
                enters = same
            else:
                continue
            if not enters or _contains_own(lp.body, ast.Continue):
                continue
            brk = ast.If(test=negate(lp.test), body=[ast.Break()], orelse=[])
            ast.copy_location(brk, lp)
            ast.fix_missing_locations(brk)
            lp.test = ast.copy_location(ast.Constant(value=True), lp.test)
            lp.body = lp.body + [brk]
            self.bump("DOWHILE")
            return True
        return False

    # -- UNPACK ----------------------------------------------------------------------------------------------------
    def unpack(self, blk):
        for i in range(len(blk) - 1):
            a, b = blk[i], blk[i + 1]
            if not (isinstance(a, ast.Assign) and len(a.targets) == 1 and isinstance(a.targets[0], ast.Tuple)):
                continue
            if not (isinstance(b, ast.Assign) and len(b.targets) == 1):
                continue
            elts = a.targets[0].elts
            # (1) T = v
            if isinstance(b.value, ast.Name) and not isinstance(b.targets[0], ast.Tuple):
                v = b.value.id
                pos = [k for k, e in enumerate(elts) if isinstance(e, ast.Name) and e.id == v]
                if len(pos) == 1 and self._single_use(v) and self._target_independent(b.targets[0], elts, v):
                    t = b.targets[0]
                    elts[pos[0]] = t
                    del blk[i + 1]
                    self.bump("UNPACK")
                    return True
            # (2) X, Y = a, b
            if isinstance(b.value, ast.Tuple) and isinstance(b.targets[0], ast.Tuple) and len(b.value.elts) == len(elts) == len(b.targets[0].elts):
                if all(isinstance(x, ast.Name) and isinstance(y, ast.Name) and x.id == y.id and self._single_use(x.id) for x, y in zip(elts, b.value.elts)):
                    if all(self._target_independent(t, [], None) for t in b.targets[0].elts):
                        a.targets[0].elts = b.targets[0].elts
                        del blk[i + 1]
                        self.bump("UNPACK")
                        return True
        return False

    def _single_use(self, v):
        return v not in self.params and v not in self.captured and len(self.stores.get(v, ())) == 1 and len(self.loads.get(v, ())) == 1

    def _target_independent(self, t, elts, v):
        """Moving the store into target t from after the unpacking to v's position inside it changes nothing: the elements
        that are now assigned after it neither bind a name t reads nor read a name t binds."""
        if _has_call(t):
            return False
        pos = [k for k, e in enumerate(elts) if isinstance(e, ast.Name) and e.id == v]
        later = elts[pos[0] + 1:] if pos else list(elts)
        bound_later = {e.id for e in later if isinstance(e, ast.Name)}
        reads = {n.id for n in ast.walk(t) if isinstance(n, ast.Name)}
        if reads & bound_later:
            return False
        if isinstance(t, ast.Name):
            for e in later:
                if not isinstance(e, ast.Name) and any(isinstance(n, ast.Name) and n.id == t.id for n in ast.walk(e)):
                    return False
        return True

    # -- FWD -------------------------------------------------------------------------------------------------------
    def fwd(self, blk):
        for i, st in enumerate(blk):
            if not (isinstance(st, ast.Assign) and len(st.targets) == 1 and isinstance(st.targets[0], ast.Name)):
                continue
            v = st.targets[0].id
            if v in self.params or v in self.captured:
                continue
            if len(self.stores.get(v, ())) != 1:
                # (d) a name reused for several independent values, each read only by the statement right after its assignment
                if i + 1 < len(blk) and self._adjacent_webs(v) and self._fwd_adjacent(blk, i, v):
                    self.bump("FWD")
                    return True
                continue
            loads = self.loads.get(v, [])
            if not loads:
                continue
            e = st.value
            if isinstance(e, (ast.Yield, ast.YieldFrom)) or any(isinstance(n, (ast.Yield, ast.YieldFrom, ast.NamedExpr)) for n in ast.walk(e)):
                continue
            if v in {n.id for n in ast.walk(e) if isinstance(n, ast.Name)}:
                continue
            later = blk[i + 1:]
            if not isinstance(e, (ast.Name, ast.Attribute)) and any(isinstance(c, ast.Call) and any(c.func is l for l in loads) for s_ in later for c in ast.walk(s_)):
                continue     # a computed callee stays behind its name (the call graph resolves names, not expressions)
            inside_later = set()
            for s in later:
                for n in ast.walk(s):
                    inside_later.add(id(n))
            if not all(id(l) in inside_later for l in loads):
                continue
            # (b) pure expression over stable operands: substitute everywhere
            #     (a helper's inlined result variable counts: it is written only inside the inlined region, which ends here)
            is_ret_copy = isinstance(e, ast.Name) and e.id in self.fresh and e.id.endswith("ret") and i > 0
            if isinstance(e, ast.Name) and not is_ret_copy and e.id not in self.params and e.id not in self.captured and self.stores.get(e.id):
                # plain copy `w = v`: every assignment of v lies in an earlier statement of this block, every read of w in a later one
                earlier = set()
                for s_ in blk[:i]:
                    for n_ in ast.walk(s_):
                        earlier.add(id(n_))
                if all(isinstance(x, ast.Name) and id(x) in earlier for x in self.stores[e.id]):
                    is_ret_copy = True
                else:
                    # ... or no assignment of v between the copy and the last statement of this block that reads w
                    last = max(k for k, s_ in enumerate(later) if any(n_ is l for l in loads for n_ in ast.walk(s_)))
                    between = set(id(n_) for s_ in later[:last + 1] for n_ in ast.walk(s_))
                    if not any(id(x) in between for x in self.stores[e.id]) and all(isinstance(x, ast.Name) for x in self.stores[e.id]):
                        is_ret_copy = True
            if (self.pure_stable(e) or is_ret_copy) and (len(loads) == 1 or _expr_weight(e) <= 12):
                for l in loads:
                    self._replace(later, l, copy.deepcopy(e) if len(loads) > 1 else e)
                del blk[i]
                self.bump("FWD")
                return True
            if len(loads) == 2 and i + 1 < len(blk) and isinstance(blk[i + 1], ast.If) and self._exclusive_uses(blk, i, e, loads):
                del blk[i]
                self.bump("FWD")
                return True
            if len(loads) != 1:
                continue
            # (a) single use in the eager part of a later statement of this block
            load = loads[0]
            j = None
            for k, s in enumerate(later):
                if any(n is load for n, eager in eval_order(s)):
                    j = i + 1 + k
                    break
            if j is None:
                continue
            tgt = blk[j]
            names, heap = _reads(e)
            impure = _has_effect(e)
            ok = True
            # statements in between
            for s in blk[i + 1:j]:
                stores, effect = _stmt_effects(s)
                if stores & names or (effect and (heap or impure)):
                    ok = False
                    break
            if not ok:
                continue
            # inside the target statement: everything evaluated before the load
            for n, eager in eval_order(tgt):
                if n is load:
                    if not eager and (impure or heap):
                        ok = False
                    break
                if isinstance(n, (ast.Call, ast.Await)) and not (isinstance(n, ast.Call) and _inert_call(n)) and (heap or impure):
                    ok = False
                    break
            if not ok:
                continue
            if isinstance(tgt, ast.AugAssign) and not isinstance(tgt.target, ast.Name):
                continue
            self._replace([tgt], load, e)
            del blk[i]
            self.bump("FWD")
            return True
        return False

    def _adjacent_webs(self, v):
        """Every load of v sits in a statement whose immediately preceding sibling is a plain `v = <expr>`; every store of v is
        such a plain assignment."""
        loads = self.loads.get(v, [])
        if not loads:
            return False
        for s_ in self.stores.get(v, []):
            if not isinstance(s_, ast.Name):
                return False
        ok_loads = set()
        n_plain = 0
        for blk in _all_blocks(self.fn):
            for k, st in enumerate(blk):
                if isinstance(st, ast.Assign) and len(st.targets) == 1 and isinstance(st.targets[0], ast.Name) and st.targets[0].id == v:
                    n_plain += 1
                    if any(isinstance(n, ast.Name) and n.id == v for n in ast.walk(st.value)):
                        return False
                    if k + 1 < len(blk):
                        nxt = blk[k + 1]
                        inside = [n for n, _e in eval_order(nxt) if isinstance(n, ast.Name) and n.id == v and isinstance(n.ctx, ast.Load)] if not isinstance(nxt, (ast.While, ast.Try)) else []
                        if len(inside) == 1:
                            ok_loads.add(id(inside[0]))
        return n_plain == len(self.stores.get(v, [])) and all(id(l) in ok_loads for l in loads)

    def _fwd_adjacent(self, blk, i, v):
        st, tgt = blk[i], blk[i + 1]
        e = st.value
        if any(isinstance(n, (ast.Yield, ast.YieldFrom, ast.NamedExpr)) for n in ast.walk(e)):
            return False
        load = None
        names, heap = _reads(e)
        impure = _has_call(e)
        for n, eager in eval_order(tgt) if not isinstance(tgt, (ast.While, ast.Try)) else ():
            if isinstance(n, ast.Name) and n.id == v and isinstance(n.ctx, ast.Load):
                if not eager and (impure or heap):
                    return False
                load = n
                break
            if isinstance(n, (ast.Call, ast.Await)) and not (isinstance(n, ast.Call) and _inert_call(n)) and (heap or impure):
                return False
        if load is None:
            return False
        if isinstance(tgt, ast.AugAssign) and not isinstance(tgt.target, ast.Name):
            return False
        if not isinstance(e, (ast.Name, ast.Attribute)) and any(isinstance(c, ast.Call) and c.func is load for c in ast.walk(tgt)):
            return False
        self._replace([tgt], load, e)
        del blk[i]
        return True

    def _exclusive_uses(self, blk, i, e, loads):
        """(c) `v = e` ; `if c: S1 [else: S2]` [; S2]  with one use of v at the very start of each exclusive continuation and a test c
        that has no effect and reads only stable names: e is evaluated exactly once on either path, right where v was read."""
        iff = blk[i + 1]
        for n in ast.walk(iff.test):
            if isinstance(n, ast.Name):
                if not self.stable_name(n.id):
                    return False
            elif isinstance(n, (ast.Call, ast.Await, ast.Attribute, ast.Subscript, ast.NamedExpr, ast.Yield, ast.YieldFrom)):
                return False
        if not iff.body:
            return False
        if iff.orelse:
            conts = [iff.body[0], iff.orelse[0]]
        elif always_exits(iff.body) and i + 2 < len(blk):
            conts = [iff.body[0], blk[i + 2]]
        else:
            return False
        found = []
        for c in conts:
            if isinstance(c, (ast.While, ast.Try, ast.FunctionDef, ast.AsyncFunctionDef, ast.ClassDef)):
                return False
            hit = None
            for n, eager in eval_order(c):
                if any(n is l for l in loads):
                    if not eager:
                        return False
                    hit = n
                    break
                if isinstance(n, (ast.Call, ast.Await)) and not (isinstance(n, ast.Call) and _inert_call(n)):
                    return False
            if hit is None:
                return False
            found.append((c, hit))
        if found[0][1] is found[1][1]:
            return False
        for c, hit in found:
            self._replace([c], hit, copy.deepcopy(e))
        return True

    def _replace(self, stmts, old, new):
        for s in stmts:
            for parent in ast.walk(s):
                for fld, val in ast.iter_fields(parent):
                    if val is old:
                        setattr(parent, fld, new)
                        return True
                    if isinstance(val, list):
                        for k, x in enumerate(val):
                            if x is old:
                                val[k] = new
                                return True
        raise Bail("load not found")


def _expr_weight(e):
    return sum(1 for _ in ast.walk(e))


def _has_call_other_than_pure(e):
    for n in ast.walk(e):
        if isinstance(n, (ast.Await, ast.Yield, ast.YieldFrom, ast.NamedExpr)):
            return True
        if isinstance(n, ast.Call) and not (isinstance(n.func, ast.Name) and n.func.id in PURE_BUILTINS):
            return True
    return False


def _contains_own(stmts, kind):
    """A `kind` statement (Break/Continue) belonging to the loop whose body is `stmts`."""
    for st in stmts:
        if isinstance(st, kind):
            return True
        if isinstance(st, (ast.While, ast.For, ast.AsyncFor, ast.FunctionDef, ast.AsyncFunctionDef, ast.ClassDef)):
            # inner loops own their break/continue (their else-blocks do not, but the repo has none)
            continue
        for b in _blocks_of(st):
            if _contains_own(b, kind):
                return True
    return False


def _own_breaks(stmts):
    """[(owning list, index)] of the break statements that belong to the loop whose body is `stmts`; a break inside
    try/with is reported with owner None-like marker by raising the count (it cannot be replaced by moved code)."""
    out = []
    for i, st in enumerate(stmts):
        if isinstance(st, ast.Break):
            out.append((stmts, i))
        elif isinstance(st, (ast.While, ast.For, ast.AsyncFor, ast.FunctionDef, ast.AsyncFunctionDef, ast.ClassDef)):
            continue
        elif isinstance(st, ast.If):
            out.extend(_own_breaks(st.body))
            out.extend(_own_breaks(st.orelse))
        else:
            for b in _blocks_of(st):
                inner = _own_breaks(b)
                if inner:
                    # break under try/with: moving code there would change which handlers / managers cover it
                    out.extend([(None, -1)] * (len(inner) + 1))
    return out


# ---------------------------------------------------------------------------------------------------------------------
# INLINE
class Inliner(object):
    def __init__(self, tree, modname, known, stats, log):
        self.tree = tree
        self.modname = modname
        self.known = known
        self.stats = stats
        self.log = log
        self.counter = 0
        self.modconsts = _module_names(tree)

    def candidates(self):
        """{(clsname|None, fname): FunctionDef} for helpers unknown to the rule tables."""
        out = {}
        defs = {}
        for st in self.tree.body:
            if isinstance(st, (ast.FunctionDef, ast.AsyncFunctionDef)):
                defs.setdefault(st.name, []).append((None, st))
            elif isinstance(st, ast.ClassDef):
                for m in st.body:
                    if isinstance(m, (ast.FunctionDef, ast.AsyncFunctionDef)):
                        defs.setdefault(m.name, []).append((st.name, m))
        for name, lst in defs.items():
            if len(lst) != 1:
                continue
            cls, fn = lst[0]
            q = "%s.%s%s" % (self.modname, cls + "." if cls else "", name)
            if q in self.known:
                continue
            if name.startswith("__") and name.endswith("__"):
                continue
            if not self._inlinable_def(fn):
                continue
            out[(cls, name)] = fn
        return out

    def _inlinable_def(self, fn):
        a = fn.args
        if a.kwarg or a.kwonlyargs or a.posonlyargs:
            return False
        if a.vararg and any(isinstance(n, ast.Name) and n.id == a.vararg.arg and isinstance(n.ctx, (ast.Store, ast.Del)) for n in ast.walk(fn)):
            return False
        decs = [_dec(d) for d in fn.decorator_list]
        if any(d not in ("staticmethod",) for d in decs):
            return False
        for n, ins in _fn_nodes(fn):
            if isinstance(n, (ast.YieldFrom, ast.Global, ast.Nonlocal, ast.FunctionDef, ast.AsyncFunctionDef, ast.ClassDef, ast.Lambda)):
                return False
            if isinstance(n, ast.Yield) and not _simple_generator(fn):
                return False
            if isinstance(n, ast.Call) and isinstance(n.func, ast.Name) and n.func.id in ("locals", "vars", "super"):
                return False
            # recursion
            if isinstance(n, ast.Call) and ((isinstance(n.func, ast.Attribute) and n.func.attr == fn.name) or (isinstance(n.func, ast.Name) and n.func.id == fn.name)):
                return False
        for d in a.defaults:
            if isinstance(d, ast.Tuple) and all(isinstance(x, ast.Constant) for x in d.elts):
                continue          # a tuple of literals is as immutable as a literal (`flag=()`)
            if not isinstance(d, ast.Constant) and not (isinstance(d, ast.Attribute) and isinstance(d.value, ast.Name)) and not (isinstance(d, ast.Name) and d.id in SENTINELS.get(self.modname, ())) \
                    and not (isinstance(d, ast.Name) and self._stable_def_name(d.id)):
                return False
        return _size(fn.body) <= 40

    def _stable_def_name(self, name):
        """`name` is bound in this module by one def / class statement and by nothing else (the same object whenever it is looked up)"""
        n = 0
        for x in ast.walk(self.tree):
            if isinstance(x, (ast.FunctionDef, ast.AsyncFunctionDef, ast.ClassDef)) and x.name == name:
                n += 1 if any(x is st for st in self.tree.body) else 2
            elif isinstance(x, ast.Name) and x.id == name and isinstance(x.ctx, (ast.Store, ast.Del)):
                return False
            elif isinstance(x, (ast.Global, ast.Nonlocal)) and name in x.names:
                return False
            elif isinstance(x, ast.alias) and (x.asname or x.name).split(".")[0] == name:
                return False
        return n == 1

    def _module_level(self):
        """Calls of small module-level helpers made while the module is being imported (`_NAME = _register(..)`): the module body is
        treated like a function body; the helper's locals become fresh module-level names, plain copies among them are forwarded."""
        cands = {k: v for k, v in self.candidates().items() if k[0] is None and not isinstance(v, ast.AsyncFunctionDef) and not any(isinstance(n, ast.Yield) for n in ast.walk(v))}
        if not cands:
            return
        pseudo = ast.FunctionDef(name="<module>", args=ast.arguments(posonlyargs=[], args=[], kwonlyargs=[], kw_defaults=[], defaults=[]), body=self.tree.body, decorator_list=[])
        done = False
        for _ in range(12):
            if not self._inline_one(None, pseudo, cands):
                break
            done = True
        if not done:
            return
        fresh = set(_fresh_registry(pseudo))
        body = self.tree.body
        for _ in range(40):
            for i, st in enumerate(body):
                if not (isinstance(st, ast.Assign) and len(st.targets) == 1 and isinstance(st.targets[0], ast.Name) and st.targets[0].id in fresh):
                    continue
                v, val = st.targets[0].id, st.value
                if not (isinstance(val, ast.Constant) or (isinstance(val, ast.Name) and (self._stable_def_name(val.id) or val.id in fresh))):
                    continue
                if sum(1 for n in ast.walk(self.tree) if isinstance(n, ast.Name) and n.id == v and isinstance(n.ctx, (ast.Store, ast.Del))) != 1:
                    continue
                if isinstance(val, ast.Name) and val.id in fresh and sum(1 for n in ast.walk(self.tree) if isinstance(n, ast.Name) and n.id == val.id and isinstance(n.ctx, (ast.Store, ast.Del))) != 1:
                    continue
                # every read is in a later top-level statement of the module body (not inside a def, which would run later)
                later = set(id(n) for st2 in body[i + 1:] if not isinstance(st2, (ast.FunctionDef, ast.AsyncFunctionDef, ast.ClassDef)) for n in ast.walk(st2))
                loads = [n for n in ast.walk(self.tree) if isinstance(n, ast.Name) and n.id == v and isinstance(n.ctx, ast.Load)]
                if any(id(n) not in later for n in loads):
                    continue

                class R(ast.NodeTransformer):
                    def visit_Name(self, n):
                        return ast.copy_location(copy.deepcopy(val), n) if n.id == v and isinstance(n.ctx, ast.Load) else n
                for k in range(i + 1, len(body)):
                    body[k] = R().visit(body[k])
                del body[i]
                break
            else:
                break

    def run(self):
        self._run_functions()
        try:
            if RECORDS and self._flatten_attr_records():
                self.stats["INLINE"] = self.stats.get("INLINE", 0) + 1
        except Bail as e:
            self.log.append("attribute records: %s" % e)
        try:
            self._module_level()
        except Bail as e:
            self.log.append("module-level inlining: %s" % e)
        self._drop_unreferenced()

    def _run_functions(self):
        for _round in range(4):
            cands = self.candidates()
            if not cands and not FOREIGN and not FOREIGN_FUNCS and not RECORDS and not STATICS:
                return
            any_done = False
            for cls, fn in self._functions():
                if self._inline_in(cls, fn, cands):
                    any_done = True
            if not any_done:
                break
        for cls, fn in self._functions():
            if self._scalarise(cls, fn):
                self.stats["INLINE"] = self.stats.get("INLINE", 0) + 1

    def _functions(self):
        for st in self.tree.body:
            if isinstance(st, (ast.FunctionDef, ast.AsyncFunctionDef)):
                yield None, st
            elif isinstance(st, ast.ClassDef):
                for m in st.body:
                    if isinstance(m, (ast.FunctionDef, ast.AsyncFunctionDef)):
                        yield st.name, m

    def _match(self, call, cls, caller, cands):
        """-> (helper def, has receiver) if `call` is a call of a candidate helper from `caller`."""
        f = call.func
        if isinstance(f, ast.Name) and f.id in FOREIGN_FUNCS and (None, f.id) not in cands and "." not in self.modname:
            h = FOREIGN_FUNCS[f.id]
            home, needs = h._sa_home
            mine = _module_bindings(self.tree)
            if home != self.modname and mine.get(f.id) == ("from", home.split(".")[-1], f.id) and f.id not in _params(caller) \
                    and not any(isinstance(n, ast.Name) and n.id == f.id and isinstance(n.ctx, ast.Store) for n, _ in _fn_nodes(caller)) \
                    and self._inlinable_def(h) and self._bindings_available(home, needs):
                return h, False
            return None
        if isinstance(f, ast.Name) and (None, f.id) in cands:
            h = cands[(None, f.id)]
            # not shadowed by a local
            for n, ins in _fn_nodes(caller):
                if isinstance(n, ast.Name) and n.id == f.id and isinstance(n.ctx, ast.Store):
                    return None
            if f.id in _params(caller):
                return None
            return h, False
        if isinstance(f, ast.Attribute) and isinstance(f.value, ast.Attribute) and isinstance(f.value.value, ast.Name) and cls is not None and RECORDS:
            # a method of a record object held in `self.X`, X bound by the constructor only, to `K(..)`: the exact class is known
            cps = _params(caller)
            cdef = next((st for st in self.tree.body if isinstance(st, ast.ClassDef) and st.name == cls), None)
            if cps and f.value.value.id == cps[0] and cdef is not None and caller.name != "__init__" \
                    and not any(isinstance(n, ast.Name) and n.id == cps[0] and isinstance(n.ctx, ast.Store) for n, _ in _fn_nodes(caller)):
                rec = self._attr_record(cdef, f.value.attr)
                if rec is not None:
                    hm = rec[2].get(f.attr)
                    if hm is not None and f.attr != "__init__" and self._inlinable_def(hm[0]) and (rec[1] == self.modname or self._bindings_available(rec[1], hm[1])):
                        return hm[0], True
                    return None
        if isinstance(f, ast.Attribute) and isinstance(f.value, ast.Attribute) and isinstance(f.value.value, ast.Name) and f.attr in FOREIGN and cls is not None:
            # a method of another package class, called on `self.X` where X is bound by the constructor only (the same object throughout)
            cps = _params(caller)
            cdef = next((st for st in self.tree.body if isinstance(st, ast.ClassDef) and st.name == cls), None)
            if cps and f.value.value.id == cps[0] and cdef is not None and f.value.attr in _stable_attrs(cdef) and caller.name != "__init__" \
                    and not any(isinstance(n, ast.Name) and n.id == cps[0] and isinstance(n.ctx, ast.Store) for n, _ in _fn_nodes(caller)):
                h = FOREIGN[f.attr]
                home, needs = getattr(h, "_sa_home", (None, frozenset()))
                if self._inlinable_def(h) and (home == self.modname or self._bindings_available(home, needs)):
                    return h, True
            return None
        if isinstance(f, ast.Attribute) and isinstance(f.value, ast.Name) and (f.value.id, f.attr) in STATICS and (cls, f.attr) not in cands:
            # `K.m(..)`: a static method looked up on a package class by name
            h = STATICS[(f.value.id, f.attr)]
            home, needs = h._sa_home
            k = f.value.id
            here = _module_bindings(self.tree).get(k)
            bound = (here == ("def", k) and home == self.modname) or (here == ("from", home.split(".")[-1], k) and home != self.modname)
            if bound and k not in _params(caller) and not any(isinstance(n, ast.Name) and n.id == k and isinstance(n.ctx, (ast.Store, ast.Del)) for n, _ in _fn_nodes(caller)) \
                    and self._inlinable_def(h) and (home == self.modname or self._bindings_available(home, needs)):
                return h, False
            return None
        if isinstance(f, ast.Attribute) and isinstance(f.value, ast.Name):
            rec = self._record_of(caller, f.value.id)
            if rec is not None:
                # a method of a record class, called on a local object constructed in this function (its exact class is known)
                hm = rec[2].get(f.attr)
                if hm is not None and f.attr != "__init__" and self._inlinable_def(hm[0]) and (rec[1] == self.modname or self._bindings_available(rec[1], hm[1])):
                    return hm[0], True
                return None
        if isinstance(f, ast.Attribute) and isinstance(f.value, ast.Name) and f.attr in FOREIGN and (cls, f.attr) not in cands:
            # a method of another package class, called on a local object that this function never rebinds
            r = f.value.id
            cps = _params(caller)
            nstores = sum(1 for n, _ in _fn_nodes(caller) if isinstance(n, ast.Name) and n.id == r and isinstance(n.ctx, (ast.Store, ast.Del)))
            if (r in cps and nstores == 0 and not (cps and r == cps[0])) or (r not in cps and nstores == 1):
                h = FOREIGN[f.attr]
                home, needs = getattr(h, "_sa_home", (None, frozenset()))
                if self._inlinable_def(h) and (home == self.modname or self._bindings_available(home, needs)):
                    return h, True
            return None
        if isinstance(f, ast.Attribute) and isinstance(f.value, ast.Name) and cls is not None and (cls, f.attr) in cands:
            h = cands[(cls, f.attr)]
            static = any(_dec(d) == "staticmethod" for d in h.decorator_list)
            cps = _params(caller)
            caller_static = any(_dec(d) in ("staticmethod",) for d in caller.decorator_list)
            if f.value.id == cls and static:
                return h, False
            if cps and not caller_static and f.value.id == cps[0] and not any(isinstance(n, ast.Name) and n.id == cps[0] and isinstance(n.ctx, ast.Store) for n, _ in _fn_nodes(caller)):
                return h, not static
        return None

    def _attr_record(self, cdef, attr):
        """RECORDS entry when `self.<attr>` of class cdef is bound by its constructor only, by `self.<attr> = K(..)`, K a record class"""
        if attr not in _stable_attrs(cdef):
            return None
        init = next((m for m in cdef.body if isinstance(m, ast.FunctionDef) and m.name == "__init__"), None)
        if init is None or not init.args.args:
            return None
        selfn = init.args.args[0].arg
        hits = [st for st in init.body if isinstance(st, ast.Assign) and len(st.targets) == 1 and isinstance(st.targets[0], ast.Attribute) and st.targets[0].attr == attr
                and isinstance(st.targets[0].value, ast.Name) and st.targets[0].value.id == selfn]
        stores = [n for n in ast.walk(init) if isinstance(n, ast.Attribute) and n.attr == attr and isinstance(n.ctx, (ast.Store, ast.Del))]
        if len(hits) != 1 or len(stores) != 1:
            return None
        v = hits[0].value
        if not (isinstance(v, ast.Call) and isinstance(v.func, ast.Name) and v.func.id in RECORDS):
            return None
        k = v.func.id
        rec = RECORDS[k]
        here = _module_bindings(self.tree).get(k)
        if (here == ("def", k) and rec[1] == self.modname) or (here == ("from", rec[1].split(".")[-1], k) and rec[1] != self.modname):
            return rec
        return None

    def _flatten_attr_records(self):
        """A record object held in `self.a` (bound by the constructor only, every occurrence of the attribute name in the package is `self.a.<field>`
        in this class once its methods and read-only properties are inlined) is a bundle of attributes `self.a__<field>`; a property of the class
        that merely reads (and a setter that merely writes) one of these is that attribute under the property's name."""
        done = False
        for cdef in [st for st in self.tree.body if isinstance(st, ast.ClassDef)]:
            init = next((m for m in cdef.body if isinstance(m, ast.FunctionDef) and m.name == "__init__"), None)
            if init is None or not init.args.args:
                continue
            for a in sorted(_stable_attrs(cdef)):
                rec = self._attr_record(cdef, a)
                if rec is None or a in ATTR_FOREIGN or any(not own for (mn, cn, own) in ATTR_SELF.get(a, ()) if (mn, cn) != (self.modname, cdef.name)):
                    continue          # (the name is used on other objects, or by a class that does not bind it itself - a subclass, say)
                kdef, home, methods, fields = rec
                props = getattr(kdef, "_sa_props", {})
                # every occurrence of `.a` in the module
                parent = {}
                for n in ast.walk(self.tree):
                    for c in ast.iter_child_nodes(n):
                        parent[id(c)] = n
                owner = {}
                for m in cdef.body:
                    if isinstance(m, (ast.FunctionDef, ast.AsyncFunctionDef)):
                        for n in ast.walk(m):
                            owner[id(n)] = m
                occ = [n for n in ast.walk(self.tree) if isinstance(n, ast.Attribute) and n.attr == a]
                ok, ctor = True, None
                for n in occ:
                    m = owner.get(id(n))
                    if m is None or not m.args.args or not (isinstance(n.value, ast.Name) and n.value.id == m.args.args[0].arg) or any(_dec(d) == "staticmethod" for d in m.decorator_list):
                        ok = False
                        break
                    if any(isinstance(x, ast.Name) and x.id == m.args.args[0].arg and isinstance(x.ctx, ast.Store) for x in ast.walk(m)):
                        ok = False
                        break
                    p_ = parent.get(id(n))
                    if isinstance(n.ctx, ast.Store):
                        if m is init and isinstance(p_, ast.Assign) and len(p_.targets) == 1 and p_.targets[0] is n and any(x is p_ for x in init.body):
                            ctor = p_
                            continue
                        ok = False
                        break
                    if not (isinstance(p_, ast.Attribute) and p_.value is n and (p_.attr in fields or (p_.attr in props and isinstance(p_.ctx, ast.Load))) and isinstance(p_.ctx, (ast.Load, ast.Store))):
                        ok = False
                        break
                if not ok or ctor is None:
                    continue
                if any(("%s__%s" % (a, f)) in ATTR_MODULES for f in fields):
                    continue
                initm, needs = methods["__init__"]
                if not (home == self.modname or self._bindings_available(home, needs)):
                    continue
                # read-only properties of the record
                for _r in range(4):
                    hit = False
                    for n in list(ast.walk(cdef)):
                        for fld, val in ast.iter_fields(n):
                            vals = val if isinstance(val, list) else [val]
                            for k_, c in enumerate(vals):
                                if isinstance(c, ast.Attribute) and isinstance(c.ctx, ast.Load) and c.attr in props and isinstance(c.value, ast.Attribute) and c.value.attr == a:
                                    psn, pe = props[c.attr]
                                    recv = c.value

                                    class RP(ast.NodeTransformer):
                                        def visit_Name(self, x):
                                            return ast.copy_location(copy.deepcopy(recv), x) if x.id == psn else x
                                    newe = ast.copy_location(RP().visit(copy.deepcopy(pe)), c)
                                    ast.fix_missing_locations(newe)
                                    if isinstance(val, list):
                                        val[k_] = newe
                                    else:
                                        setattr(n, fld, newe)
                                    hit = True
                    if not hit:
                        break
                # the construction becomes the body of K.__init__ on `self.a`
                call = ctor.value
                fake = ast.copy_location(ast.Call(func=ast.Attribute(value=copy.deepcopy(ctor.targets[0]), attr="__init__", ctx=ast.Load()), args=call.args, keywords=call.keywords), call)
                fake.func.value.ctx = ast.Load()
                try:
                    pre, body, tag, fresh = self._prepare(init, fake, initm, True, False)
                except Bail as e:
                    self.log.append("ATTRFLAT skipped %s.%s: %s" % (cdef.name, a, e))
                    continue
                i = next(k for k, x in enumerate(init.body) if x is ctor)
                new = pre + body
                for x in new:
                    ast.fix_missing_locations(x)
                init.body[i:i + 1] = new
                _fresh_registry(init).update(fresh)

                class R(ast.NodeTransformer):
                    def visit_Attribute(self, n):
                        self.generic_visit(n)
                        if isinstance(n.value, ast.Attribute) and n.value.attr == a and n.attr in fields:
                            return ast.copy_location(ast.Attribute(value=n.value.value, attr="%s__%s" % (a, n.attr), ctx=n.ctx), n)
                        return n
                R().visit(cdef)
                self.stats["ATTRFLAT"] = self.stats.get("ATTRFLAT", 0) + 1
                self.log.append("ATTRFLAT: %s.%s of %s" % (cdef.name, a, kdef.name))
                done = True
                # alias properties: `@property def p(self): return self.S` (+ `@p.setter def p(self, v): self.S = v`), S one of the new attributes
                for f in fields:
                    S = "%s__%s" % (a, f)
                    for g in [m for m in cdef.body if isinstance(m, ast.FunctionDef) and [_dec(d) for d in m.decorator_list] == ["property"] and len(m.args.args) == 1]:
                        gb = [b for b in g.body if not (isinstance(b, ast.Expr) and isinstance(b.value, ast.Constant))]
                        sn = g.args.args[0].arg
                        if not (len(gb) == 1 and isinstance(gb[0], ast.Return) and isinstance(gb[0].value, ast.Attribute) and gb[0].value.attr == S and isinstance(gb[0].value.value, ast.Name) and gb[0].value.value.id == sn):
                            continue
                        pname = g.name
                        if "%s.%s.%s" % (self.modname, cdef.name, pname) in self.known:
                            continue          # a property the rule tables know stays a property (its storage is named below)
                        others = [m for m in cdef.body if isinstance(m, (ast.FunctionDef, ast.AsyncFunctionDef)) and m.name == pname and m is not g]
                        setter = None
                        good = True
                        for m in others:
                            decs = [_dec(d) for d in m.decorator_list]
                            mb = [b for b in m.body if not (isinstance(b, ast.Expr) and isinstance(b.value, ast.Constant))]
                            if decs == ["setter"] and isinstance(m.decorator_list[0], ast.Attribute) and isinstance(m.decorator_list[0].value, ast.Name) and m.decorator_list[0].value.id == pname and len(m.args.args) == 2 and len(mb) == 1 and isinstance(mb[0], ast.Assign) and len(mb[0].targets) == 1 \
                                    and isinstance(mb[0].targets[0], ast.Attribute) and mb[0].targets[0].attr == S and isinstance(mb[0].targets[0].value, ast.Name) and mb[0].targets[0].value.id == m.args.args[0].arg \
                                    and isinstance(mb[0].value, ast.Name) and mb[0].value.id == m.args.args[1].arg and setter is None:
                                setter = m
                            else:
                                good = False
                        # the property's name is used on instances of this class only (as an attribute of something), and is no plain attribute of it
                        if not good or any(isinstance(n, ast.Attribute) and n.attr == pname and isinstance(n.ctx, ast.Store) and isinstance(n.value, ast.Name) and owner.get(id(n)) is init for n in ast.walk(init)):
                            continue
                        cdef.body[:] = [m for m in cdef.body if m is not g and m is not setter]
                        for n in ast.walk(self.tree):
                            if isinstance(n, ast.Attribute) and n.attr == S:
                                n.attr = pname
                        self.log.append("alias property %s.%s is the attribute %s" % (cdef.name, pname, S))
                # the new attributes may be known ones under another name (`_state__available` is the `_available` flag): name recovery for this class
                try:
                    from .rename import Renamer
                    from .known_shapes import SHAPES
                    if self.modname in SHAPES and cdef.name in SHAPES[self.modname]["classes"]:
                        rn = Renamer({self.modname: self.tree}, SHAPES)
                        rn._attrs(self.modname, cdef)
                        for r_ in rn.log:
                            self.log.append("renamed after flattening: %s" % (r_,))
                except ImportError:
                    pass
        return done

    def _record_of(self, caller, name):
        """-> RECORDS entry when local `name` of `caller` is bound exactly once, by `name = K(...)` with K a record class"""
        if not RECORDS or name in _params(caller) or name in _names_captured(caller):
            return None
        stores = [n for n, _ in _fn_nodes(caller) if isinstance(n, ast.Name) and n.id == name and isinstance(n.ctx, (ast.Store, ast.Del))]
        if len(stores) != 1:
            return None
        for blk in _all_blocks(caller):
            for st in blk:
                if isinstance(st, ast.Assign) and len(st.targets) == 1 and st.targets[0] is stores[0] and isinstance(st.value, ast.Call) and isinstance(st.value.func, ast.Name):
                    k = st.value.func.id
                    rec = RECORDS.get(k)
                    if rec is None or k in _params(caller) or any(isinstance(n, ast.Name) and n.id == k and isinstance(n.ctx, (ast.Store, ast.Del)) for n, _ in _fn_nodes(caller)):
                        return None
                    here = _module_bindings(self.tree).get(k)
                    if here == ("def", k) and rec[1] == self.modname:
                        return rec
                    if here == ("from", rec[1].split(".")[-1], k) and rec[1] != self.modname:
                        return rec
                    return None
        return None

    def _scalarise(self, cls, caller):
        """SROA: a local record object that never leaves the function (every occurrence is `v.<field>`, all method calls were inlined) is
        replaced by one local variable per field; the construction becomes the body of `__init__`."""
        done = False
        if not RECORDS:
            return False
        names = sorted(set(n.id for n, _ in _fn_nodes(caller) if isinstance(n, ast.Name) and isinstance(n.ctx, ast.Store)))
        for v in names:
            rec = self._record_of(caller, v)
            if rec is None:
                continue
            kdef, home, methods, fields = rec
            props = getattr(kdef, "_sa_props", {})
            if props and any(isinstance(x, ast.Name) and x.id == "constants" for _sn, pe_ in props.values() for x in ast.walk(pe_)) \
                    and _module_bindings(self.tree).get("constants", ("",))[0] != "from":
                continue
            if props:
                # `v.p` for a read-only property p: the expression it returns, with v for self (repeated: a property may read another)
                for _r in range(4):
                    hit = False
                    for n in list(ast.walk(caller)):
                        for fld, val in ast.iter_fields(n):
                            vals = val if isinstance(val, list) else [val]
                            for k_, c in enumerate(vals):
                                if isinstance(c, ast.Attribute) and isinstance(c.ctx, ast.Load) and isinstance(c.value, ast.Name) and c.value.id == v and c.attr in props:
                                    psn, pe = props[c.attr]

                                    class RP(ast.NodeTransformer):
                                        def visit_Name(self, x):
                                            return ast.copy_location(ast.Name(id=v, ctx=ast.Load()), x) if x.id == psn else x
                                    newe = ast.copy_location(RP().visit(copy.deepcopy(pe)), c)
                                    ast.fix_missing_locations(newe)
                                    if isinstance(val, list):
                                        val[k_] = newe
                                    else:
                                        setattr(n, fld, newe)
                                    hit = True
                    if not hit:
                        break
            parent = {}
            for n in ast.walk(caller):
                for c in ast.iter_child_nodes(n):
                    parent[id(c)] = n
            occ = [n for n in ast.walk(caller) if isinstance(n, ast.Name) and n.id == v]
            ctor = None
            ok = True
            for n in occ:
                p_ = parent.get(id(n))
                if isinstance(n.ctx, ast.Store):
                    if isinstance(p_, ast.Assign) and len(p_.targets) == 1 and p_.targets[0] is n:
                        ctor = p_
                        continue
                    ok = False
                    break
                if not (isinstance(p_, ast.Attribute) and p_.value is n and p_.attr in fields and isinstance(p_.ctx, (ast.Load, ast.Store))):
                    ok = False
                    break
            if not ok or ctor is None:
                continue
            new_names = {f: "_r_%s_%s" % (v, f) for f in fields}
            used = set(n.id for n in ast.walk(caller) if isinstance(n, ast.Name)) | set(_params(caller))
            if any(x in used for x in new_names.values()):
                continue
            init, needs = methods["__init__"]
            if not (home == self.modname or self._bindings_available(home, needs)):
                continue
            call = ctor.value
            fake = ast.copy_location(ast.Call(func=ast.Attribute(value=ast.Name(id=v, ctx=ast.Load()), attr="__init__", ctx=ast.Load()), args=call.args, keywords=call.keywords), call)
            try:
                pre, body, tag, fresh = self._prepare(caller, fake, init, True, False)
            except Bail as e:
                self.log.append("SROA skipped %s in %s: %s" % (v, caller.name, e))
                continue
            blk = next((b for b in _all_blocks(caller) if any(x is ctor for x in b)), None)
            if blk is None:
                continue
            i = next(k for k, x in enumerate(blk) if x is ctor)
            new = pre + body
            for x in new:
                ast.fix_missing_locations(x)
            blk[i:i + 1] = new

            class R(ast.NodeTransformer):
                def visit_Attribute(self, n):
                    self.generic_visit(n)
                    if isinstance(n.value, ast.Name) and n.value.id == v and n.attr in new_names:
                        return ast.copy_location(ast.Name(id=new_names[n.attr], ctx=n.ctx), n)
                    return n
            R().visit(caller)
            _fresh_registry(caller).update(fresh)
            self.stats["SROA"] = self.stats.get("SROA", 0) + 1
            self.log.append("SROA: %s of %s in %s" % (v, kdef.name, caller.name))
            done = True
        return done

    def _bindings_available(self, home, needs):
        """every module-level name the foreign body reads means the same thing here - names this module does not bind at all are imported
        (the canonical module is never written anywhere, the import only serves name resolution)"""
        mine = _module_bindings(self.tree)
        last = (home or "").split(".")[-1]
        missing = []
        for name, b in sorted(needs):
            here = mine.get(name)
            want = ("from", last, name) if b[0] == "def" else b
            if here is None:
                missing.append((name, b))
            elif here != want:
                return False
        for name, b in missing:
            if b[0] == "def":
                imp = ast.ImportFrom(module=last, names=[ast.alias(name=name, asname=None)], level=1)
            elif b[0] == "from":
                imp = ast.ImportFrom(module=b[1] or None, names=[ast.alias(name=b[2], asname=name if name != b[2] else None)], level=1 if b[1] in FOREIGN_HOME_MODULES or not b[1] else 0)
            else:
                imp = ast.Import(names=[ast.alias(name=b[1], asname=name if name != b[1].split(".")[0] else None)])
            ast.fix_missing_locations(imp)
            pos = 0
            while pos < len(self.tree.body) and (isinstance(self.tree.body[pos], (ast.Import, ast.ImportFrom)) or
                                                 (isinstance(self.tree.body[pos], ast.Expr) and isinstance(self.tree.body[pos].value, ast.Constant))):
                pos += 1
            self.tree.body.insert(pos, imp)
            self.modconsts = _module_names(self.tree)
        return True

    def _same_bindings(self, home, needs):
        mine = _module_bindings(self.tree)
        last = (home or "").split(".")[-1]
        for name, b in needs:
            here = mine.get(name)
            if b[0] == "def":
                if here != ("from", last, name):
                    return False
            elif here != b:
                return False
        return True

    def _imported_from(self, home):
        """names this module imports, unrenamed, from the package module `home` (`from .hidden_helpers import X`)"""
        out = set()
        last = (home or "").split(".")[-1]
        for st in self.tree.body:
            if isinstance(st, ast.ImportFrom) and st.module and st.module.split(".")[-1] == last:
                for a in st.names:
                    if a.asname in (None, a.name):
                        out.add(a.name)
        return out

    def _inline_in(self, cls, caller, cands):
        done = False
        for _ in range(30):
            if not self._inline_one(cls, caller, cands):
                break
            done = True
        return done

    def _inline_generator(self, cls, caller, cands, blk, i, st):
        """`for x in self._gen(args): B` with a simple generator helper."""
        if not (isinstance(st, ast.For) and not st.orelse and isinstance(st.iter, ast.Call)):
            return False
        m = self._match(st.iter, cls, caller, cands)
        if m is None or m[0] is caller:
            return False
        h, recv = m
        if not any(isinstance(n, ast.Yield) for n in ast.walk(h)) or isinstance(h, ast.AsyncFunctionDef):
            return False
        if _contains_own(st.body, ast.Break) or _contains_own(st.body, ast.Continue) or _size(st.body) > 8:
            return False
        pre, body, tag, fresh = self._prepare(caller, st.iter, h, recv, False)
        if FOREIGN.get(h.name) is h or FOREIGN_FUNCS.get(h.name) is h:
            FOREIGN_INLINED.add(h.name)

        def subst(stmts):
            out = []
            for s_ in stmts:
                if isinstance(s_, ast.Expr) and isinstance(s_.value, ast.Yield):
                    v = s_.value.value if s_.value.value is not None else ast.Constant(value=None)
                    out.append(ast.copy_location(ast.Assign(targets=[copy.deepcopy(st.target)], value=v), st))
                    out.extend(copy.deepcopy(st.body))
                elif isinstance(s_, ast.If):
                    s_.body = subst(s_.body) or [ast.copy_location(ast.Pass(), s_)]
                    s_.orelse = subst(s_.orelse)
                    out.append(s_)
                elif isinstance(s_, ast.Return):
                    raise Bail("return in a generator helper")
                else:
                    out.append(s_)
            return out
        new = pre + subst(body)
        for s_ in new:
            ast.fix_missing_locations(s_)
        blk[i:i + 1] = new
        _fresh_registry(caller).update(fresh)
        return True

    def _inline_one(self, cls, caller, cands):
        for blk in _all_blocks(caller):
            for i, st in enumerate(blk):
                if isinstance(st, (ast.FunctionDef, ast.AsyncFunctionDef, ast.ClassDef)):
                    continue
                try:
                    if self._inline_generator(cls, caller, cands, blk, i, st):
                        self.stats["INLINE"] = self.stats.get("INLINE", 0) + 1
                        return True
                except Bail as e:
                    self.log.append("INLINE skipped generator in %s: %s" % (caller.name, e))
                hdr_calls = []
                effects = []
                for n, eager in eval_order(st) if not isinstance(st, (ast.While, ast.Try)) else ():
                    if isinstance(n, ast.Call):
                        m = self._match(n, cls, caller, cands)
                        if m is not None and m[0] is not caller:
                            own = {id(x) for x in ast.walk(n)}
                            hdr_calls.append((n, eager, any(id(x) not in own for x in effects), m))
                        if not _inert_call(n):
                            effects.append(n)
                    elif isinstance(n, (ast.Await, ast.Yield, ast.YieldFrom)):
                        effects.append(n)
                for call, eager, effect_before, (h, recv) in hdr_calls:
                    try:
                        new = self._splice(caller, blk, i, st, call, eager, effect_before, h, recv)
                    except Bail as e:
                        self.log.append("INLINE skipped %s in %s: %s" % (h.name, caller.name, e))
                        continue
                    if new:
                        self.stats["INLINE"] = self.stats.get("INLINE", 0) + 1
                        if FOREIGN.get(h.name) is h or FOREIGN_FUNCS.get(h.name) is h:
                            FOREIGN_INLINED.add(h.name)
                        return True
                # expression helpers inside while-tests etc.
                if isinstance(st, ast.While):
                    for n in ast.walk(st.test):
                        if isinstance(n, ast.Call):
                            m = self._match(n, cls, caller, cands)
                            if m is not None and m[0] is not caller:
                                try:
                                    if self._splice_expr_only(caller, st, n, m[0], m[1]):
                                        self.stats["INLINE"] = self.stats.get("INLINE", 0) + 1
                                        if FOREIGN.get(m[0].name) is m[0] or FOREIGN_FUNCS.get(m[0].name) is m[0]:
                                            FOREIGN_INLINED.add(m[0].name)
                                        return True
                                except Bail as e:
                                    self.log.append("INLINE skipped %s in %s: %s" % (m[0].name, caller.name, e))
                                    if not st.orelse and not _is_const_true(st.test) and not getattr(st, "_sa_unwtop", False):
                                        # `while T(h()): B`  ->  `while True: if not T(h()): break ; B`: the helper's statements then have a place to go
                                        brk = ast.copy_location(ast.If(test=negate(st.test), body=[ast.copy_location(ast.Break(), st)], orelse=[]), st)
                                        st.test = ast.copy_location(ast.Constant(value=True), st)
                                        st.body.insert(0, brk)
                                        st._sa_unwtop = True
                                        ast.fix_missing_locations(st)
                                        return True
        return False

    # -- binding ---------------------------------------------------------------------------------------------------
    def _bind(self, call, h, recv):
        ps = [x.arg for x in h.args.args]
        if recv:
            ps = ps[1:]
        if any(isinstance(a, ast.Starred) for a in call.args) or any(k.arg is None for k in call.keywords):
            raise Bail("star arguments")
        extra = []
        if len(call.args) > len(ps):
            if h.args.vararg is None:
                raise Bail("too many arguments")
            extra = list(call.args[len(ps):])
        b = {}
        for p, a in zip(ps, call.args):
            b[p] = a
        if h.args.vararg is not None:
            # *args of a call without star-arguments is the tuple of the surplus positional arguments
            b[h.args.vararg.arg] = ast.copy_location(ast.Tuple(elts=extra, ctx=ast.Load()), call)
        for k in call.keywords:
            if k.arg not in ps or k.arg in b:
                raise Bail("bad keyword")
            b[k.arg] = k.value
        defaults = dict(zip(reversed([x.arg for x in h.args.args]), reversed(h.args.defaults)))
        for p in ps:
            if p not in b:
                if p not in defaults:
                    raise Bail("missing argument")
                b[p] = copy.deepcopy(defaults[p])
        if h.args.vararg is not None:
            ps = ps + [h.args.vararg.arg]
        return ps, b

    def _prepare(self, caller, call, h, recv, is_await):
        """-> (pre statements binding the parameters, renamed deep copy of the helper body, rename map)."""
        if isinstance(h, ast.AsyncFunctionDef) != is_await:
            raise Bail("await mismatch")
        ps, b = self._bind(call, h, recv)
        self.counter += 1
        tag = "_i%d_" % self.counter
        body = copy.deepcopy(h.body)
        if body and isinstance(body[0], ast.Expr) and isinstance(body[0].value, ast.Constant) and isinstance(body[0].value.value, str):
            body = body[1:]
        hc = getattr(h, "_sa_consts", None)
        if hc:
            class K(ast.NodeTransformer):
                def visit_Name(self, n):
                    return ast.copy_location(copy.deepcopy(hc[n.id]), n) if isinstance(n.ctx, ast.Load) and n.id in hc else n
            body = [K().visit(st) for st in body]
        hp = [x.arg for x in h.args.args] + ([h.args.vararg.arg] if h.args.vararg is not None else [])
        local = set(hp)
        for st in body:
            for n in ast.walk(st):
                if isinstance(n, ast.Name) and isinstance(n.ctx, (ast.Store, ast.Del)):
                    local.add(n.id)
                elif isinstance(n, ast.ExceptHandler) and n.name:
                    local.add(n.name)
        ren = {x: tag + x for x in local}
        pre = []
        stored_params = set()
        for st in body:
            for n in ast.walk(st):
                if isinstance(n, ast.Name) and isinstance(n.ctx, (ast.Store, ast.Del)) and n.id in hp:
                    stored_params.add(n.id)
        direct = {}
        if recv:
            if hp[0] in stored_params:
                raise Bail("receiver reassigned")
            direct[hp[0]] = copy.deepcopy(call.func.value)        # a name, or `self.X` for a constructor-bound attribute
        fresh = []
        for p in ps:
            a = b[p]
            if p not in stored_params and isinstance(a, ast.Constant):
                direct[p] = a
                continue
            if p not in stored_params and isinstance(a, ast.Name) and a.id in SENTINELS.get(self.modname, ()):
                direct[p] = a          # a module-level sentinel object: the name denotes the same object everywhere
                continue
            if p not in stored_params and h.args.vararg is not None and p == h.args.vararg.arg and isinstance(a, ast.Tuple) and not a.elts:
                direct[p] = a
                continue
            t = ast.Assign(targets=[ast.Name(id=ren[p], ctx=ast.Store())], value=a)
            ast.copy_location(t, call)
            ast.fix_missing_locations(t)
            pre.append(t)
            fresh.append(ren[p])

        class R(ast.NodeTransformer):
            def visit_Name(self, n):
                if n.id in direct and isinstance(n.ctx, ast.Load):
                    return ast.copy_location(copy.deepcopy(direct[n.id]), n)
                if n.id in ren:
                    n.id = ren[n.id]
                return n

            def visit_ExceptHandler(self, n):
                if n.name and n.name in ren:
                    n.name = ren[n.name]
                self.generic_visit(n)
                return n
        body = [R().visit(st) for st in body]
        for x in local:
            fresh.append(ren[x])
        return pre, body, tag, fresh

    def _splice(self, caller, blk, i, st, call, eager, effect_before, h, recv):
        # where does the call sit?
        is_await = False
        holder = None   # the expression node that stands for the call's value (Call or Await(Call))
        for n in ast.walk(st):
            if isinstance(n, ast.Await) and n.value is call:
                is_await = True
                holder = n
        if holder is None:
            holder = call
        if not eager or effect_before:
            # only a pure expression helper can be substituted in place
            return self._splice_expr_only(caller, st, call, h, recv)
        pre, body, tag, fresh = self._prepare(caller, call, h, recv, is_await)
        fc = _fresh_registry(caller)
        # return h(...)
        if isinstance(st, ast.Return) and st.value is holder:
            new = pre + body
            if not always_leaves_function(body):
                new.append(ast.copy_location(ast.Return(value=None), st))
            blk[i:i + 1] = new
            fc.update(fresh)
            return True
        # v = h(...) ; if v: return v      with h returning either None (at its very end) or a value that cannot be falsy:
        # the helper's body takes the place of both statements, its value-returns becoming returns of the caller
        if isinstance(st, ast.Assign) and len(st.targets) == 1 and isinstance(st.targets[0], ast.Name) and st.value is holder and i + 1 < len(blk):
            v = st.targets[0].id
            nxt = blk[i + 1]
            t = nxt.test if isinstance(nxt, ast.If) else None
            by_truth = isinstance(t, ast.Name) and t.id == v
            by_none = isinstance(t, ast.Compare) and len(t.ops) == 1 and isinstance(t.ops[0], ast.IsNot) and isinstance(t.left, ast.Name) and t.left.id == v \
                and isinstance(t.comparators[0], ast.Constant) and t.comparators[0].value is None
            if (by_truth or by_none) and not nxt.orelse and len(nxt.body) == 1 and isinstance(nxt.body[0], ast.Return) and isinstance(nxt.body[0].value, ast.Name) and nxt.body[0].value.id == v:
                pairs = 0
                for bb in _all_blocks(caller):
                    for k in range(len(bb) - 1):
                        a_, b_ = bb[k], bb[k + 1]
                        if isinstance(a_, ast.Assign) and len(a_.targets) == 1 and isinstance(a_.targets[0], ast.Name) and a_.targets[0].id == v and isinstance(b_, ast.If) \
                                and _dump(b_.test) == _dump(t) and not b_.orelse and len(b_.body) == 1 and isinstance(b_.body[0], ast.Return) and isinstance(b_.body[0].value, ast.Name) and b_.body[0].value.id == v:
                            pairs += 1
                nloads = sum(1 for n, _ins in _fn_nodes(caller) if isinstance(n, ast.Name) and n.id == v and isinstance(n.ctx, ast.Load))
                rets = [n for n in ast.walk(ast.Module(body=body, type_ignores=[])) if isinstance(n, ast.Return)]

                def none_ret(r):
                    return r.value is None or (isinstance(r.value, ast.Constant) and r.value.value is None)

                def sure(r):
                    e = r.value
                    return (isinstance(e, ast.Tuple) and e.elts and not any(isinstance(x, ast.Starred) for x in e.elts)) or \
                        (isinstance(e, ast.Constant) and e.value is not None and (by_none or bool(e.value)))
                _tail_returns_to_breaks(body, none_ret)
                rets = [n for n in ast.walk(ast.Module(body=body, type_ignores=[])) if isinstance(n, ast.Return)]
                nones = [r for r in rets if none_ret(r)]
                tail_ok = all(r is body[-1] for r in nones) and (bool(nones) or not always_leaves_function(body))
                nested_defs = any(isinstance(n, (ast.FunctionDef, ast.AsyncFunctionDef, ast.Lambda)) for b_ in body for n in ast.walk(b_))
                if nloads == 2 * pairs and tail_ok and all(none_ret(r) or sure(r) for r in rets) and not nested_defs and v not in _names_captured(caller):
                    new = pre + [b_ for b_ in body if not (isinstance(b_, ast.Return) and none_ret(b_))]
                    blk[i:i + 2] = new
                    fc.update(fresh)
                    self.stats["OPTRET"] = self.stats.get("OPTRET", 0) + 1
                    return True
        ret = tag + "ret"
        used = not (isinstance(st, ast.Expr) and st.value is holder)
        try:
            tb = _tailify(body, ret if used else None, st)
        except Bail:
            tb = _looptail(body, ret if used else None, st)
        if used:
            _replace_node(st, holder, ast.copy_location(ast.Name(id=ret, ctx=ast.Load()), holder))
            blk[i:i + 1] = pre + tb + [st]
            fresh.append(ret)
        else:
            blk[i:i + 1] = pre + tb
        fc.update(fresh)
        return True

    def _splice_expr_only(self, caller, st, call, h, recv):
        is_await = any(isinstance(n, ast.Await) and n.value is call for n in ast.walk(st))
        pre, body, tag, fresh = self._prepare(caller, call, h, recv, is_await)
        ret = tag + "ret"
        tb = _tailify(body, ret, st)
        tmpfn = ast.FunctionDef(name="_tmp", args=ast.arguments(posonlyargs=[], args=[], kwonlyargs=[], kw_defaults=[], defaults=[]), body=pre + tb + [ast.Return(value=ast.Name(id=ret, ctx=ast.Load()))], decorator_list=[])
        ast.fix_missing_locations(tmpfn)
        fcn = FuncCanon(tmpfn, self.modconsts, {})
        fcn.fresh = set(fresh) | {ret}
        # parameters bound to arbitrary expressions: treat names of the caller as stable only if the caller never stores them
        fcn.run()
        e = _returns_to_expr(tmpfn.body)
        if e is None:
            raise Bail("not an expression helper in a position where statements cannot be hoisted")
        if _has_call(e) and False:
            pass
        holder = call
        for n in ast.walk(st):
            if isinstance(n, ast.Await) and n.value is call:
                holder = n
        _replace_node(st, holder, e)
        return True

    def _drop_unreferenced(self):
        """Remove private unknown helpers that are no longer referenced anywhere in the module."""
        refs = {}
        for n in ast.walk(self.tree):
            if isinstance(n, ast.Attribute):
                refs[n.attr] = refs.get(n.attr, 0) + 1
            elif isinstance(n, ast.Name):
                refs[n.id] = refs.get(n.id, 0) + 1
            elif isinstance(n, ast.Constant) and isinstance(n.value, str) and n.value.isidentifier():
                refs[n.value] = refs.get(n.value, 0) + 1

        def keep(owner, clsname):
            out = []
            for st in owner:
                if isinstance(st, (ast.FunctionDef, ast.AsyncFunctionDef)) and st.name.startswith("_") and not st.name.startswith("__"):
                    q = "%s.%s%s" % (self.modname, clsname + "." if clsname else "", st.name)
                    if q not in self.known and not refs.get(st.name) and self.stats.get("INLINE") and st.name not in FOREIGN:
                        self.stats["DROP"] = self.stats.get("DROP", 0) + 1
                        self.log.append("dropped fully inlined helper %s" % q)
                        continue
                out.append(st)
            return out
        self.tree.body[:] = keep(self.tree.body, None)
        for st in self.tree.body:
            if isinstance(st, ast.ClassDef):
                new = keep(st.body, st.name)
                st.body[:] = new or [ast.Pass()]


def _returns_to_expr(stmts):
    """`if c: return a` ; `return b`  (nested likewise, nothing but tests and returns)  ->  the expression `a if c else b`; else None."""
    if len(stmts) == 1 and isinstance(stmts[0], ast.Return) and stmts[0].value is not None:
        return stmts[0].value
    if stmts and isinstance(stmts[0], ast.If):
        first, rest = stmts[0], stmts[1:]
        if any(isinstance(n, (ast.Await, ast.Yield, ast.YieldFrom, ast.NamedExpr)) for n in ast.walk(first.test)):
            return None
        a = _returns_to_expr(first.body if always_exits(first.body) else first.body + rest)
        b = _returns_to_expr(first.orelse if (first.orelse and always_exits(first.orelse)) else first.orelse + rest)
        if a is None or b is None:
            return None
        return ast.copy_location(ast.IfExp(test=first.test, body=a, orelse=b), first)
    return None


def _tail_returns_to_breaks(body, is_none_ret):
    """In a helper whose last statement is (a `with` around) a loop without `else`, a `return None` directly inside that loop
    does what `break` does: nothing follows the loop."""
    if not body:
        return
    last = body[-1]
    if isinstance(last, (ast.With, ast.AsyncWith)):
        _tail_returns_to_breaks(last.body, is_none_ret)
        return
    if isinstance(last, (ast.While, ast.For, ast.AsyncFor)) and not last.orelse:
        def walk(stmts):
            for k, st in enumerate(stmts):
                if isinstance(st, ast.Return) and is_none_ret(st):
                    stmts[k] = ast.copy_location(ast.Break(), st)
                elif isinstance(st, ast.If):
                    walk(st.body)
                    walk(st.orelse)
                elif isinstance(st, (ast.With, ast.AsyncWith)):
                    walk(st.body)
        walk(last.body)


def _simple_generator(fn):
    """A generator whose yields are plain statements outside any loop / try / with (at most four of them) and that returns
    no value: `for x in gen(..): B` is then the generator's body with every `yield v` replaced by `x = v; B`."""
    ny = 0

    def ok(stmts):
        nonlocal ny
        for st in stmts:
            if isinstance(st, ast.Expr) and isinstance(st.value, ast.Yield):
                ny += 1
                continue
            if isinstance(st, ast.If):
                if not ok(st.body) or not ok(st.orelse):
                    return False
                if any(isinstance(n, ast.Yield) for n in ast.walk(st.test)):
                    return False
                continue
            if any(isinstance(n, (ast.Yield, ast.YieldFrom)) for n in ast.walk(st)):
                return False
            if isinstance(st, ast.Return) and st.value is not None:
                return False
        return True
    body = fn.body
    return ok(body) and 1 <= ny <= 4


def _fresh_registry(fn):
    r = getattr(fn, "_sa_fresh", None)
    if r is None:
        r = set()
        fn._sa_fresh = r
    return r


def _dec(d):
    if isinstance(d, ast.Call):
        d = d.func
    if isinstance(d, ast.Attribute):
        return d.attr
    if isinstance(d, ast.Name):
        return d.id
    return "?"


def _replace_node(root, old, new):
    for parent in ast.walk(root):
        for fld, val in ast.iter_fields(parent):
            if val is old:
                setattr(parent, fld, new)
                return
            if isinstance(val, list):
                for k, x in enumerate(val):
                    if x is old:
                        val[k] = new
                        return
    raise Bail("node to replace not found")


def _contains_return(st):
    for n in ast.walk(st):
        if isinstance(n, ast.Return):
            return True
    return False


def _tailify(stmts, ret, at):
    """Rewrite a helper body so that every `return e` becomes `ret = e` (or just `e` when ret is None); possible when each
    return is in tail position once the statements following an if are moved into the arm that falls through."""
    out = []
    for i, st in enumerate(stmts):
        if isinstance(st, ast.Return):
            if ret is not None:
                v = st.value if st.value is not None else ast.copy_location(ast.Constant(value=None), st)
                out.append(ast.copy_location(ast.Assign(targets=[ast.copy_location(ast.Name(id=ret, ctx=ast.Store()), st)], value=v), st))
            elif st.value is not None and _has_call(st.value):
                out.append(ast.copy_location(ast.Expr(value=st.value), st))
            return out
        if isinstance(st, ast.If) and _contains_return(st):
            rest = stmts[i + 1:]
            b_exit, e_exit = always_exits(st.body), always_exits(st.orelse)
            if rest and not b_exit and not e_exit:
                raise Bail("return in a non-tail position")
            nb = _tailify(st.body + ([] if b_exit else rest), ret, at)
            ne = _tailify(st.orelse + ([] if e_exit else rest), ret, at)
            new = ast.copy_location(ast.If(test=st.test, body=nb or [ast.copy_location(ast.Pass(), st)], orelse=ne), st)
            out.append(new)
            return out
        if isinstance(st, (ast.With, ast.AsyncWith)) and _contains_return(st) and i == len(stmts) - 1:
            # the with-statement ends the helper: a return at the tail of its body leaves the block normally first
            st.body = _tailify(st.body, ret, at) or [ast.copy_location(ast.Pass(), st)]
            out.append(st)
            return out
        if isinstance(st, ast.Try) and _contains_return(st):
            # returns at the tail of the try body / of handlers / of the else-block: the statements after the try run exactly when the body
            # ends normally (every handler leaves), i.e. they are its else-block
            rest = stmts[i + 1:]
            body_ret = any(_contains_return(x) for x in st.body)
            if any(_contains_return(x) for x in st.finalbody) or (st.finalbody and rest):
                raise Bail("return and finally")
            if body_ret and (st.orelse or rest):
                raise Bail("return inside a try body that is followed by more statements")
            if rest and not all(always_exits(h.body) for h in st.handlers):
                raise Bail("a handler falls through to statements with a return")
            if body_ret:
                st.body = _tailify(st.body, ret, at) or [ast.copy_location(ast.Pass(), st)]
            else:
                st.orelse = _tailify(st.orelse + rest, ret, at)
            for h in st.handlers:
                h.body = _tailify(h.body, ret, at) or [ast.copy_location(ast.Pass(), h)]
            out.append(st)
            return out
        if _contains_return(st):
            raise Bail("return inside a loop / try / with")
        out.append(st)
    if ret is not None and not always_exits(out):
        out.append(ast.copy_location(ast.Assign(targets=[ast.copy_location(ast.Name(id=ret, ctx=ast.Store()), at)], value=ast.copy_location(ast.Constant(value=None), at)), at))
    return out


def _looptail(stmts, ret, at):
    """Helper body = statements without returns, then ONE loop whose returns sit directly in its body (under ifs only), then a
    tail: each `return e` inside the loop becomes `ret = e; break`, and the tail moves into the loop's else-block (run exactly
    when the loop ends without such a break)."""
    k = None
    for i, st in enumerate(stmts):
        if _contains_return(st):
            k = i
            break
    if k is None or not isinstance(stmts[k], (ast.While, ast.For, ast.AsyncFor)):
        raise Bail("return inside try / with")
    lp = stmts[k]
    if lp.orelse or _own_breaks(lp.body):
        raise Bail("loop with break/else and return")

    def conv(body):
        out = []
        for st in body:
            if isinstance(st, ast.Return):
                if ret is not None:
                    v = st.value if st.value is not None else ast.copy_location(ast.Constant(value=None), st)
                    out.append(ast.copy_location(ast.Assign(targets=[ast.copy_location(ast.Name(id=ret, ctx=ast.Store()), st)], value=v), st))
                elif st.value is not None and _has_call(st.value):
                    out.append(ast.copy_location(ast.Expr(value=st.value), st))
                out.append(ast.copy_location(ast.Break(), st))
                return out
            if isinstance(st, ast.If):
                st.body = conv(st.body) or [ast.copy_location(ast.Pass(), st)]
                st.orelse = conv(st.orelse)
                out.append(st)
            elif _contains_return(st):
                raise Bail("return nested in an inner loop / try / with")
            else:
                out.append(st)
        return out
    lp.body = conv(lp.body)
    tail = _tailify(stmts[k + 1:], ret, at)
    infinite = isinstance(lp, ast.While) and _is_const_true(lp.test)
    if not infinite:
        lp.orelse = tail
    return stmts[:k] + [lp]


def _module_names(tree):
    out = set()
    for st in ast.walk(tree):
        if isinstance(st, ast.Import):
            for a in st.names:
                out.add((a.asname or a.name).split(".")[0])
        elif isinstance(st, ast.ImportFrom):
            for a in st.names:
                out.add(a.asname or a.name)
    return out


# ---------------------------------------------------------------------------------------------------------------------
def struct_objects(trees, log=None):
    """Package-wide: a precompiled `struct.Struct(F)` is the module functions with the format spelled out.
       N = struct.Struct(F) (module level, bound once):  N.pack(..) -> struct.pack(F, ..); N.unpack(x) -> struct.unpack(F, x); N.size -> struct.calcsize(F)
       self.X = struct.Struct(p) next to self.Y = p in one __init__ (X, Y assigned nowhere else): o.X.unpack(x) -> struct.unpack(o.Y, x), o.X.size -> struct.calcsize(o.Y)"""
    log = log if log is not None else []

    def is_struct_ctor(v):
        return isinstance(v, ast.Call) and isinstance(v.func, ast.Attribute) and v.func.attr == "Struct" and isinstance(v.func.value, ast.Name) and v.func.value.id == "struct" and len(v.args) == 1 and not v.keywords

    def imports_struct(t):
        return any(isinstance(n, ast.Import) and any(a.name == "struct" and a.asname is None for a in n.names) for n in ast.walk(t))

    def sfn(name):
        return ast.Attribute(value=ast.Name(id="struct", ctx=ast.Load()), attr=name, ctx=ast.Load())
    # attribute-level
    attr_map = {}      # X -> Y
    for t in trees.values():
        for cls in [c for c in t.body if isinstance(c, ast.ClassDef)]:
            for m in cls.body:
                if isinstance(m, ast.FunctionDef) and m.name == "__init__" and m.args.args:
                    selfn = m.args.args[0].arg
                    stored = {}       # param name -> attr
                    structs = {}      # attr X -> param name
                    for st in m.body:
                        if isinstance(st, ast.Assign) and len(st.targets) == 1 and isinstance(st.targets[0], ast.Attribute) and isinstance(st.targets[0].value, ast.Name) and st.targets[0].value.id == selfn:
                            if isinstance(st.value, ast.Name):
                                stored[st.value.id] = st.targets[0].attr
                            elif is_struct_ctor(st.value) and isinstance(st.value.args[0], ast.Name):
                                structs[st.targets[0].attr] = st.value.args[0].id
                            elif is_struct_ctor(st.value) and isinstance(st.value.args[0], ast.Attribute) and isinstance(st.value.args[0].value, ast.Name) and st.value.args[0].value.id == selfn:
                                structs[st.targets[0].attr] = ("attr", st.value.args[0].attr)
                    for x, p in structs.items():
                        y = p[1] if isinstance(p, tuple) else stored.get(p)
                        if y:
                            attr_map[x] = y
    # X and Y assigned only once in the package
    for x, y in list(attr_map.items()):
        n_x = n_y = 0
        for t in trees.values():
            for n in ast.walk(t):
                if isinstance(n, ast.Attribute) and isinstance(n.ctx, ast.Store):
                    n_x += n.attr == x
                    n_y += n.attr == y
        if n_x != 1 or n_y != 1:
            del attr_map[x]
    for modname, t in trees.items():
        has_struct = imports_struct(t)
        mod_map = {}
        counts = {}
        for st in t.body:
            if isinstance(st, ast.Assign) and len(st.targets) == 1 and isinstance(st.targets[0], ast.Name):
                counts[st.targets[0].id] = counts.get(st.targets[0].id, 0) + 1
                if is_struct_ctor(st.value):
                    mod_map[st.targets[0].id] = st.value.args[0]
        mod_map = {k: v for k, v in mod_map.items() if counts[k] == 1}
        if not has_struct or not (mod_map or attr_map):
            continue

        def fmt_of(recv):
            if isinstance(recv, ast.Name) and recv.id in mod_map:
                return copy.deepcopy(mod_map[recv.id])
            if isinstance(recv, ast.Attribute) and recv.attr in attr_map:
                return ast.Attribute(value=copy.deepcopy(recv.value), attr=attr_map[recv.attr], ctx=ast.Load())
            return None

        class Tr(ast.NodeTransformer):
            def visit_Call(self, n):
                self.generic_visit(n)
                if isinstance(n.func, ast.Attribute) and n.func.attr in ("pack", "unpack") and not n.keywords:
                    f = fmt_of(n.func.value)
                    if f is not None:
                        log.append("STRUCT %s.%s" % (modname, n.func.attr))
                        return ast.copy_location(ast.Call(func=sfn(n.func.attr), args=[f] + n.args, keywords=[]), n)
                return n

            def visit_Attribute(self, n):
                self.generic_visit(n)
                if n.attr == "size" and isinstance(n.ctx, ast.Load):
                    f = fmt_of(n.value)
                    if f is not None:
                        return ast.copy_location(ast.Call(func=sfn("calcsize"), args=[f], keywords=[]), n)
                return n
        Tr().visit(t)
        ast.fix_missing_locations(t)
    return log


# ---------------------------------------------------------------------------------------------------------------------
def _marker_well_behaved(tree, S):
    """The marker S is only ever named as a parameter default and as an operand of `is` / `is not`; a parameter defaulting to S is read only in such
    comparisons or inside `if p is not S:` blocks - so the marker never travels anywhere else."""
    allowed = set()
    for n in ast.walk(tree):
        if isinstance(n, (ast.FunctionDef, ast.AsyncFunctionDef)):
            for d in n.args.defaults + [x for x in n.args.kw_defaults if x is not None]:
                if isinstance(d, ast.Name) and d.id == S:
                    allowed.add(id(d))
        elif isinstance(n, ast.Compare) and len(n.ops) == 1 and isinstance(n.ops[0], (ast.Is, ast.IsNot)):
            for x in (n.left, n.comparators[0]):
                if isinstance(x, ast.Name) and x.id == S:
                    allowed.add(id(x))
        elif isinstance(n, ast.Assign) and len(n.targets) == 1 and isinstance(n.targets[0], ast.Name) and n.targets[0].id == S:
            allowed.add(id(n.targets[0]))
    for n in ast.walk(tree):
        if isinstance(n, ast.Name) and n.id == S and id(n) not in allowed:
            return False
    for fn in ast.walk(tree):
        if not isinstance(fn, (ast.FunctionDef, ast.AsyncFunctionDef)):
            continue
        a = fn.args
        marked = [prm.arg for prm, d in zip(reversed(a.args), reversed(a.defaults)) if isinstance(d, ast.Name) and d.id == S]
        for q in marked:
            ok_nodes = set()
            for n in ast.walk(fn):
                if isinstance(n, ast.Compare) and len(n.ops) == 1 and isinstance(n.ops[0], (ast.Is, ast.IsNot)):
                    pair = (n.left, n.comparators[0])
                    if any(isinstance(x, ast.Name) and x.id == S for x in pair):
                        for x in pair:
                            if isinstance(x, ast.Name) and x.id == q:
                                ok_nodes.add(id(x))
                if isinstance(n, ast.If) and isinstance(n.test, ast.Compare) and len(n.test.ops) == 1 and isinstance(n.test.ops[0], ast.IsNot) \
                        and isinstance(n.test.left, ast.Name) and n.test.left.id == q and isinstance(n.test.comparators[0], ast.Name) and n.test.comparators[0].id == S:
                    for st in n.body:
                        for x in ast.walk(st):
                            if isinstance(x, ast.Name) and x.id == q:
                                ok_nodes.add(id(x))
            for n in ast.walk(fn):
                if isinstance(n, ast.Name) and n.id == q and isinstance(n.ctx, ast.Load) and id(n) not in ok_nodes:
                    return False
                if isinstance(n, ast.Name) and n.id == q and isinstance(n.ctx, (ast.Store, ast.Del)):
                    return False
    return True


def _stable_attrs(cls):
    """attributes of self that are (re)bound in __init__ only (and the class has an __init__)"""
    bound, elsewhere = set(), set()
    has_init = False
    for m in cls.body:
        if isinstance(m, (ast.FunctionDef, ast.AsyncFunctionDef)) and m.args.args:
            selfn = m.args.args[0].arg
            if m.name == "__init__":
                has_init = True
            for n in ast.walk(m):
                if isinstance(n, ast.Attribute) and isinstance(n.ctx, (ast.Store, ast.Del)) and isinstance(n.value, ast.Name) and n.value.id == selfn:
                    (bound if m.name == "__init__" else elsewhere).add(n.attr)
                if isinstance(n, ast.Call) and isinstance(n.func, ast.Name) and n.func.id in ("setattr", "delattr", "vars"):
                    elsewhere.add("*")
                if isinstance(n, ast.Attribute) and n.attr == "__dict__":
                    elsewhere.add("*")
    if not has_init or "*" in elsewhere or len(cls.bases) > 1:
        return set()
    return bound - elsewhere


def _module_tables(tree, stats):
    """Module level: `T = {}` ; `for k in IT: T[k] = E`  ->  `T = {k: E for k in IT}`   (E does not read T; a following `del k` goes too) and
    `L = []` ; `for k in IT: L.append(E)`  ->  `L = [E for k in IT]`: constant tables built by a loop are the same tables."""
    body = tree.body
    i = 0
    while i + 1 < len(body):
        a, lp = body[i], body[i + 1]
        ok = isinstance(a, ast.Assign) and len(a.targets) == 1 and isinstance(a.targets[0], ast.Name) and isinstance(lp, ast.For) and not lp.orelse \
            and isinstance(lp.target, ast.Name) and len(lp.body) == 1
        new = None
        if ok:
            T, k, st = a.targets[0].id, lp.target.id, lp.body[0]
            reads_T = lambda e: any(isinstance(n, ast.Name) and n.id == T for n in ast.walk(e))      # noqa: E731
            if isinstance(a.value, ast.Dict) and not a.value.keys and isinstance(st, ast.Assign) and len(st.targets) == 1 and isinstance(st.targets[0], ast.Subscript) \
                    and isinstance(st.targets[0].value, ast.Name) and st.targets[0].value.id == T and not reads_T(st.value) and not reads_T(st.targets[0].slice) and not reads_T(lp.iter):
                new = ast.DictComp(key=st.targets[0].slice, value=st.value, generators=[ast.comprehension(target=ast.Name(id=k, ctx=ast.Store()), iter=lp.iter, ifs=[], is_async=0)])
            elif isinstance(a.value, ast.List) and not a.value.elts and isinstance(st, ast.Expr) and isinstance(st.value, ast.Call) and isinstance(st.value.func, ast.Attribute) \
                    and st.value.func.attr == "append" and isinstance(st.value.func.value, ast.Name) and st.value.func.value.id == T and len(st.value.args) == 1 and not st.value.keywords \
                    and not reads_T(st.value.args[0]) and not reads_T(lp.iter):
                new = ast.ListComp(elt=st.value.args[0], generators=[ast.comprehension(target=ast.Name(id=k, ctx=ast.Store()), iter=lp.iter, ifs=[], is_async=0)])
        if new is not None:
            k = lp.target.id
            later_reads = any(isinstance(n, ast.Name) and n.id == k and isinstance(n.ctx, ast.Load) for s_ in body[i + 2:] for n in ast.walk(s_))
            if not later_reads or (i + 2 < len(body) and isinstance(body[i + 2], ast.Delete)):
                asg = ast.Assign(targets=[ast.Name(id=a.targets[0].id, ctx=ast.Store())], value=new)
                ast.copy_location(asg, a)
                ast.fix_missing_locations(asg)
                n_del = 1 if (i + 2 < len(body) and isinstance(body[i + 2], ast.Delete) and all(isinstance(t, ast.Name) and t.id == k for t in body[i + 2].targets)) else 0
                body[i:i + 2 + n_del] = [asg]
                stats["MODTABLE"] = stats.get("MODTABLE", 0) + 1
                continue
        i += 1


_RO_BUILTINS = {"len", "tuple", "list", "sorted", "set", "frozenset", "str", "repr", "bool", "any", "all", "min", "max", "sum", "enumerate", "iter", "isinstance", "bytes", "dict"}


def _build_param_readonly(trees):
    """PARAM_READONLY: greatest fixpoint over all function definitions of the package: id(def) -> parameters the function only reads.  A call is
    matched to the definitions of that name that can take its arguments (all of them must agree)."""
    PARAM_READONLY.clear()
    IMPORTED_NAMES.clear()
    PARAM_DEFS.clear()
    cls_funcs = set(id(m) for t in trees.values() for c in ast.walk(t) if isinstance(c, ast.ClassDef) for m in c.body if isinstance(m, (ast.FunctionDef, ast.AsyncFunctionDef)))
    for t in trees.values():
        for n in ast.walk(t):
            if isinstance(n, (ast.FunctionDef, ast.AsyncFunctionDef)):
                is_method = id(n) in cls_funcs and not any(isinstance(x, ast.Name) and x.id == "staticmethod" for x in n.decorator_list)
                PARAM_DEFS.setdefault(n.name, []).append((n, is_method))
            elif isinstance(n, ast.ImportFrom) and n.level > 0:
                for a_ in n.names:
                    IMPORTED_NAMES.add(a_.name)
    cur = {}
    for name, lst in PARAM_DEFS.items():
        for d, _m in lst:
            a_ = d.args
            cur[id(d)] = set(x.arg for x in a_.posonlyargs + a_.args + a_.kwonlyargs)

    def readonly(d, p):
        parent = {}
        for n in ast.walk(d):
            for c in ast.iter_child_nodes(n):
                parent[id(c)] = n
        if any(isinstance(n, (ast.FunctionDef, ast.AsyncFunctionDef, ast.Lambda)) and n is not d and any(isinstance(x, ast.Name) and x.id == p for x in ast.walk(n)) for n in ast.walk(d)):
            return False
        for n in ast.walk(d):
            if not (isinstance(n, ast.Name) and n.id == p):
                continue
            if isinstance(n.ctx, (ast.Store, ast.Del)):
                continue          # re-binding the name does not touch the object
            q = parent.get(id(n))
            if isinstance(q, ast.Compare) and any(c is n for c in q.comparators) and all(isinstance(o, (ast.In, ast.NotIn, ast.Eq, ast.NotEq, ast.Is, ast.IsNot)) for o in q.ops):
                continue
            if isinstance(q, ast.Compare) and q.left is n and all(isinstance(o, (ast.Eq, ast.NotEq, ast.Is, ast.IsNot)) for o in q.ops):
                continue
            if isinstance(q, (ast.For, ast.AsyncFor, ast.comprehension)) and q.iter is n:
                continue
            if isinstance(q, ast.Subscript) and q.value is n and isinstance(q.ctx, ast.Load):
                continue
            if isinstance(q, (ast.BoolOp, ast.UnaryOp, ast.If, ast.While)) or (isinstance(q, ast.IfExp) and q.test is n):
                continue          # truth value
            if isinstance(q, ast.Tuple) and isinstance(parent.get(id(q)), ast.BinOp) and isinstance(parent[id(q)].op, ast.Mod):
                continue          # '%s' % (.., p, ..)
            if isinstance(q, ast.BinOp) and isinstance(q.op, ast.Mod) and q.right is n:
                continue
            if isinstance(q, ast.BinOp) and isinstance(q.op, ast.Add):
                continue          # a + p builds a new sequence
            if isinstance(q, ast.Starred):
                continue          # *p copies the elements
            if isinstance(q, ast.Call) and (any(a_ is n for a_ in q.args) or any(k.value is n for k in q.keywords)):
                pos = next((i for i, a_ in enumerate(q.args) if a_ is n), None)
                kw = next((k.arg for k in q.keywords if k.value is n), None)
                if _arg_readonly(q, pos, kw, cur):
                    continue
                return False
            return False
        return True
    for _round in range(8):
        changed = False
        for name, lst in PARAM_DEFS.items():
            for d, _m in lst:
                for p_ in list(cur[id(d)]):
                    if not readonly(d, p_):
                        cur[id(d)].discard(p_)
                        changed = True
        if not changed:
            break
    PARAM_READONLY.update(cur)


def _arg_readonly(call, pos, kw, table=None):
    """the argument at position `pos` (or keyword `kw`) of this call goes to a parameter that every definition the call can mean only reads"""
    table = PARAM_READONLY if table is None else table
    f = call.func
    if isinstance(f, ast.Name) and f.id in _RO_BUILTINS:
        return True
    if isinstance(f, ast.Attribute) and f.attr in ("format", "debug", "info", "warning", "error", "join"):
        return True
    if isinstance(f, ast.Attribute) and isinstance(f.value, ast.Name) and f.value.id == "exceptions":
        return True          # formatted into an exception's message
    cname = f.attr if isinstance(f, ast.Attribute) else f.id if isinstance(f, ast.Name) else None
    lst = PARAM_DEFS.get(cname)
    if not lst:
        return False
    if any(isinstance(a_, ast.Starred) for a_ in (call.args[:pos + 1] if pos is not None else call.args)) or any(k.arg is None for k in call.keywords):
        return False
    npos = len(call.args)
    kws = [k.arg for k in call.keywords]
    cands = []
    for d, is_method in lst:
        a_ = d.args
        names = [x.arg for x in a_.posonlyargs + a_.args]
        if is_method and isinstance(f, ast.Attribute):
            names = names[1:]
        elif is_method != isinstance(f, ast.Attribute) and is_method:
            continue
        allnames = set(names) | set(x.arg for x in a_.kwonlyargs)
        if npos > len(names) and a_.vararg is None:
            continue
        if any(k not in allnames for k in kws) and a_.kwarg is None:
            continue
        required = len(names) - len(a_.defaults)
        if npos + len([k for k in kws if k in names]) < required:
            continue
        cands.append((d, names))
    if not cands:
        return False
    for d, names in cands:
        if kw is not None:
            tp = kw
        else:
            tp = names[pos] if pos < len(names) else None
        if tp is None or tp not in table.get(id(d), ()):
            return False
    return True


PARAM_DEFS = {}          # function name -> [(FunctionDef, is a method taking self)]


def _inline_module_scalars(tree, modname, stats, log):
    """A module-level name bound once to a number / bytes / str (or a tuple of such), written as a literal or as arithmetic over literals and other
    such names, is that value wherever the module's functions read it (an immutable value: sharing cannot be told from a fresh literal)."""
    import operator
    OPS = {ast.Add: operator.add, ast.Sub: operator.sub, ast.Mult: operator.mul, ast.BitOr: operator.or_, ast.BitAnd: operator.and_, ast.BitXor: operator.xor,
           ast.LShift: operator.lshift, ast.RShift: operator.rshift, ast.FloorDiv: operator.floordiv, ast.Mod: operator.mod, ast.Pow: operator.pow}
    once = {}
    for st in tree.body:
        if isinstance(st, ast.Assign) and len(st.targets) == 1 and isinstance(st.targets[0], ast.Name):
            once.setdefault(st.targets[0].id, []).append(st)
    stores = {}
    for n in ast.walk(tree):
        if isinstance(n, ast.Name) and isinstance(n.ctx, (ast.Store, ast.Del)):
            stores[n.id] = stores.get(n.id, 0) + 1
        elif isinstance(n, (ast.Global, ast.Nonlocal)):
            for nm in n.names:
                stores[nm] = stores.get(nm, 0) + 2
        elif isinstance(n, (ast.FunctionDef, ast.AsyncFunctionDef, ast.ClassDef)):
            stores[n.name] = stores.get(n.name, 0) + 2
            if not isinstance(n, ast.ClassDef):
                for a_ in n.args.posonlyargs + n.args.args + n.args.kwonlyargs + [x for x in (n.args.vararg, n.args.kwarg) if x is not None]:
                    stores[a_.arg] = stores.get(a_.arg, 0) + 2          # a parameter of that name somewhere: leave the name alone
    vals = {}

    class Unk(Exception):
        pass

    def ev(e, depth=0):
        if depth > 12:
            raise Unk()
        if isinstance(e, ast.Constant) and isinstance(e.value, (int, bytes, str)) and not isinstance(e.value, bool):
            return e.value
        if isinstance(e, ast.Tuple):
            return tuple(ev(x, depth + 1) for x in e.elts)
        if isinstance(e, ast.Name) and e.id in vals:
            return vals[e.id]
        if isinstance(e, ast.BinOp) and type(e.op) in OPS:
            a_, b_ = ev(e.left, depth + 1), ev(e.right, depth + 1)
            if not (isinstance(a_, int) and isinstance(b_, int)) or (isinstance(e.op, (ast.Pow, ast.LShift)) and b_ > 64) or (isinstance(e.op, (ast.FloorDiv, ast.Mod)) and b_ == 0):
                raise Unk()
            return OPS[type(e.op)](a_, b_)
        raise Unk()
    for _round in range(3):
        for nm, sts in once.items():
            if nm in vals or len(sts) != 1 or stores.get(nm) != 1 or nm.startswith("__"):
                continue
            if isinstance(sts[0].value, ast.Constant) and not (isinstance(sts[0].value.value, int) and not isinstance(sts[0].value.value, bool)):
                continue          # (plain string / bytes constants are left as names)
            try:
                v = ev(sts[0].value)
            except Unk:
                continue
            if isinstance(v, (bytes, str)):
                continue
            if isinstance(v, tuple) and not all(isinstance(x, int) and not isinstance(x, bool) for x in v):
                continue
            vals[nm] = v
    # names bound to a plain literal stay names (the rule tables read some of them: CLASS, SUBCLASS, ..); their values serve constant folding only
    plain = set(nm for nm, sts in once.items() if nm in vals and isinstance(sts[0].value, ast.Constant))
    MODINTS[modname] = {nm: vals[nm] for nm in plain if isinstance(vals[nm], int)}
    for nm in plain:
        del vals[nm]
    if not vals:
        return

    def lit(v, at):
        if isinstance(v, tuple):
            return ast.copy_location(ast.Tuple(elts=[lit(x, at) for x in v], ctx=ast.Load()), at)
        return ast.copy_location(ast.Constant(value=v), at)
    n_done = 0
    for fn in [x for x in ast.walk(tree) if isinstance(x, (ast.FunctionDef, ast.AsyncFunctionDef))]:
        for n in list(ast.walk(fn)):
            for fld, val in ast.iter_fields(n):
                vlist = val if isinstance(val, list) else [val]
                for k, c in enumerate(vlist):
                    if isinstance(c, ast.Name) and isinstance(c.ctx, ast.Load) and c.id in vals:
                        new = lit(vals[c.id], c)
                        ast.fix_missing_locations(new)
                        if isinstance(val, list):
                            val[k] = new
                        else:
                            setattr(n, fld, new)
                        n_done += 1
    if n_done:
        stats["MODSCALAR"] = stats.get("MODSCALAR", 0) + n_done


def _arg_readonly_expanded(call, starred, pos, k):
    """as _arg_readonly, for the element that lands at position `pos` once the starred display of k elements is written out"""
    fake = copy.copy(call)
    i = next(j for j, a_ in enumerate(call.args) if a_ is starred)
    fake.args = list(call.args[:i]) + [ast.Constant(value=None)] * k + list(call.args[i + 1:])
    return _arg_readonly(fake, pos, None)


def _inline_module_displays(tree, modname, stats, log):
    """A private module-level name bound once to a display of constants (`_STREAM_CMDS = [constants.CLSE, constants.WRTE]`, a dict of such lists) and
    only ever read - indexed by a constant, handed to parameters that are only read (PARAM_READONLY), iterated, tested for membership - is the display
    written out at each use: sharing one object instead of building a fresh one cannot be observed."""
    def const_leaf(e):
        return isinstance(e, ast.Constant) or (isinstance(e, ast.Attribute) and isinstance(e.value, ast.Name) and e.value.id == "constants")

    def const_display(e):
        if const_leaf(e):
            return True
        if isinstance(e, (ast.List, ast.Tuple, ast.Set)):
            return all(const_display(x) for x in e.elts)
        if isinstance(e, ast.Dict):
            return all(k is not None and const_leaf(k) and const_display(v) for k, v in zip(e.keys, e.values))
        return False
    cands = {}
    for st in tree.body:
        if isinstance(st, ast.Assign) and len(st.targets) == 1 and isinstance(st.targets[0], ast.Name) and isinstance(st.value, (ast.List, ast.Tuple, ast.Dict, ast.Set)) and const_display(st.value):
            nm = st.targets[0].id
            if nm.startswith("_") and not nm.startswith("__") and nm not in IMPORTED_NAMES:
                cands[nm] = st
    if not cands:
        return
    parent = {}
    for n in ast.walk(tree):
        for c in ast.iter_child_nodes(n):
            parent[id(c)] = n
    for nm, st in sorted(cands.items()):
        occ = [n for n in ast.walk(tree) if isinstance(n, ast.Name) and n.id == nm]
        if sum(1 for n in occ if isinstance(n.ctx, (ast.Store, ast.Del))) != 1 or any(isinstance(n, (ast.Global, ast.Nonlocal)) and nm in n.names for n in ast.walk(tree)):
            continue
        loads = [n for n in occ if isinstance(n.ctx, ast.Load)]
        if not loads:
            continue
        plan = []
        ok = True
        for n in loads:
            node, val = n, st.value
            # constant subscripts
            while True:
                q = parent.get(id(node))
                if isinstance(q, ast.Subscript) and q.value is node and isinstance(q.ctx, ast.Load) and const_leaf(q.slice):
                    if isinstance(val, ast.Dict):
                        hit = [v for k, v in zip(val.keys, val.values) if ast.dump(k) == ast.dump(q.slice)]
                        if len(hit) != 1:
                            ok = False
                            break
                        val = hit[0]
                    elif isinstance(val, (ast.List, ast.Tuple)) and isinstance(q.slice, ast.Constant) and isinstance(q.slice.value, int) and 0 <= q.slice.value < len(val.elts):
                        val = val.elts[q.slice.value]
                    else:
                        ok = False
                        break
                    node = q
                    continue
                break
            if not ok:
                break
            q = parent.get(id(node))
            # the context the (sub-)display ends up in
            safe = False
            if const_leaf(val):
                safe = True
            elif isinstance(q, ast.Compare) and any(c is node for c in q.comparators) and all(isinstance(o, (ast.In, ast.NotIn)) for o in q.ops):
                safe = True
            elif isinstance(q, (ast.For, ast.AsyncFor, ast.comprehension)) and q.iter is node:
                safe = True
            elif isinstance(q, ast.Starred) and isinstance(val, (ast.List, ast.Tuple)):
                c = parent.get(id(q))
                if isinstance(c, ast.Call) and any(a is q for a in c.args) and sum(1 for a in c.args if isinstance(a, ast.Starred)) == 1:
                    pos = [i for i, a in enumerate(c.args) if a is q][0]
                    safe = all(const_leaf(e) or _arg_readonly_expanded(c, q, pos + k, len(val.elts)) for k, e in enumerate(val.elts))
            elif isinstance(q, ast.Call) and any(a is node for a in q.args) and not any(isinstance(a, ast.Starred) for a in q.args):
                safe = _arg_readonly(q, [i for i, a in enumerate(q.args) if a is node][0], None)
            elif isinstance(q, ast.keyword) and isinstance(parent.get(id(q)), ast.Call):
                safe = _arg_readonly(parent[id(q)], None, q.arg)
            if not safe:
                ok = False
                break
            plan.append((node, val))
        if not ok:
            continue
        for node, val in plan:
            q = parent.get(id(node))
            new = ast.copy_location(copy.deepcopy(val), node)
            ast.fix_missing_locations(new)
            for fld, v in ast.iter_fields(q):
                if v is node:
                    setattr(q, fld, new)
                elif isinstance(v, list):
                    for k, x in enumerate(v):
                        if x is node:
                            v[k] = new
        tree.body[:] = [x for x in tree.body if x is not st]
        stats["MODCONST"] = stats.get("MODCONST", 0) + 1
        log.append("module-level constant display %s written out at its %d uses" % (nm, len(plan)))
        parent = {}
        for n in ast.walk(tree):
            for c in ast.iter_child_nodes(n):
                parent[id(c)] = n


def canonicalise(tree, modname, known, stats=None, log=None):
    """Rewrite `tree` (a parsed module) in place into canonical form; returns the statistics dict."""
    stats = stats if stats is not None else {}
    log = log if log is not None else []
    modconsts = _module_names(tree)

    def method_table(cls):
        out = {}
        for m in cls.body:
            if isinstance(m, (ast.FunctionDef, ast.AsyncFunctionDef)):
                a = m.args
                if a.vararg or a.kwarg or a.posonlyargs:
                    continue
                decs = [_dec(d) for d in m.decorator_list]
                if "property" in decs or any(d.endswith("setter") for d in decs):
                    continue
                ps = [x.arg for x in a.args]
                out[m.name] = ps if "staticmethod" in decs else ps[1:]
        return out

    def attr_types(cls):
        """self.X = C(...) for a package class C, everywhere X is assigned in the class: X is a C."""
        seen = {}
        for m in cls.body:
            if isinstance(m, (ast.FunctionDef, ast.AsyncFunctionDef)) and m.args.args:
                selfn = m.args.args[0].arg
                for n in ast.walk(m):
                    if isinstance(n, ast.Assign):
                        for t in n.targets:
                            for x in ast.walk(t):
                                if isinstance(x, ast.Attribute) and isinstance(x.ctx, ast.Store) and isinstance(x.value, ast.Name) and x.value.id == selfn:
                                    v = n.value if (len(n.targets) == 1 and x is t) else None
                                    c = v.func.id if isinstance(v, ast.Call) and isinstance(v.func, ast.Name) and v.func.id in CLASS_METHODS else None
                                    seen.setdefault(x.attr, set()).add(c)
                    elif isinstance(n, (ast.AugAssign, ast.AnnAssign, ast.Delete, ast.For, ast.With)):
                        for x in ast.walk(n):
                            if isinstance(x, ast.Attribute) and isinstance(x.ctx, (ast.Store, ast.Del)) and isinstance(x.value, ast.Name) and x.value.id == selfn:
                                seen.setdefault(x.attr, set()).add(None)
        return {a: next(iter(cs)) for a, cs in seen.items() if len(cs) == 1 and None not in cs}

    def stable_attrs(cls):
        return _stable_attrs(cls)

    def _unused_sa(cls):
        """attributes of self that are (re)bound in __init__ only (and the class has an __init__)"""
        bound, elsewhere = set(), set()
        has_init = False
        for m in cls.body:
            if isinstance(m, (ast.FunctionDef, ast.AsyncFunctionDef)) and m.args.args:
                selfn = m.args.args[0].arg
                if m.name == "__init__":
                    has_init = True
                for n in ast.walk(m):
                    if isinstance(n, ast.Attribute) and isinstance(n.ctx, (ast.Store, ast.Del)) and isinstance(n.value, ast.Name) and n.value.id == selfn:
                        (bound if m.name == "__init__" else elsewhere).add(n.attr)
                    # setattr(self, ...) / self.__dict__ tricks: give up
                    if isinstance(n, ast.Call) and isinstance(n.func, ast.Name) and n.func.id in ("setattr", "delattr", "vars"):
                        elsewhere.add("*")
                    if isinstance(n, ast.Attribute) and n.attr == "__dict__":
                        elsewhere.add("*")
        if not has_init or "*" in elsewhere or len(cls.bases) > 1:
            return set()
        return bound - elsewhere

    def each_function():
        for st in tree.body:
            if isinstance(st, (ast.FunctionDef, ast.AsyncFunctionDef)):
                yield st, {}, {}, set()
            elif isinstance(st, ast.ClassDef):
                mt = method_table(st)
                at = attr_types(st)
                sa = stable_attrs(st)
                for m in st.body:
                    if isinstance(m, (ast.FunctionDef, ast.AsyncFunctionDef)):
                        m._sa_cls = st.name
                        yield m, mt, at, sa

    def normalise():
        for fn, mt, at, sa in each_function():
            fc = FuncCanon(fn, modconsts, stats, mt, at, sa)
            fc.fresh = _fresh_registry(fn)
            try:
                fc.run()
            except Bail as e:
                log.append("normalise %s: %s" % (fn.name, e))

    _CUR_SENTINELS.clear()
    _CUR_MODNAME[0] = modname
    once = {}
    for st in tree.body:
        if isinstance(st, ast.Assign) and len(st.targets) == 1 and isinstance(st.targets[0], ast.Name):
            once.setdefault(st.targets[0].id, []).append(st.value)
    for nm, vals in once.items():
        if len(vals) == 1 and isinstance(vals[0], ast.Call) and isinstance(vals[0].func, ast.Name) and vals[0].func.id == "object" and not vals[0].args and not vals[0].keywords:
            stores = sum(1 for n in ast.walk(tree) if isinstance(n, ast.Name) and n.id == nm and isinstance(n.ctx, (ast.Store, ast.Del)))
            if stores == 1 and _marker_well_behaved(tree, nm):
                _CUR_SENTINELS.add(nm)
    SENTINELS[modname] = set(_CUR_SENTINELS)
    _module_tables(tree, stats)
    _inline_module_displays(tree, modname, stats, log)
    _inline_module_scalars(tree, modname, stats, log)
    normalise()
    for _round in range(3):
        before = stats.get("INLINE", 0)
        inl = Inliner(tree, modname, known, stats, log)
        inl.run()
        if stats.get("INLINE", 0) == before:
            break
        normalise()          # (folding what the inlined arguments decide may open further calls to inlining: one more round)
    ast.fix_missing_locations(tree)
    return stats


if __name__ == "__main__":
    import sys
    from .known_funcs import KNOWN
    path = sys.argv[1]
    modname = sys.argv[2] if len(sys.argv) > 2 else path.split("adb_shell/")[-1][:-3].replace("/", ".")
    t = ast.parse(open(path).read())
    st, lg = {}, []
    import os
    pk = path[:path.index("adb_shell/") + len("adb_shell")]
    trees = {}
    for dp, dn, fns in os.walk(pk):
        for fn_ in fns:
            if fn_.endswith(".py"):
                full = os.path.join(dp, fn_)
                mn = os.path.relpath(full, pk)[:-3].replace(os.sep, ".")
                if mn.endswith("__init__"):
                    mn = mn[:-len("__init__")].rstrip(".") or "__init__"
                try:
                    trees[mn] = t if os.path.abspath(full) == os.path.abspath(path) else ast.parse(open(full).read())
                except SyntaxError:
                    pass
    from .rename import canonical_names
    for r in canonical_names(trees):
        print("# renamed:", r, file=sys.stderr)
    NONNULL_CONSTS.clear()
    if "constants" in trees:
        _once = {}
        for _st in trees["constants"].body:
            if isinstance(_st, ast.Assign) and len(_st.targets) == 1 and isinstance(_st.targets[0], ast.Name):
                _once.setdefault(_st.targets[0].id, []).append(_st.value)
        for _n, _vals in _once.items():
            if len(_vals) == 1 and isinstance(_vals[0], (ast.Constant, ast.Dict, ast.List, ast.Tuple, ast.Set)) and not (isinstance(_vals[0], ast.Constant) and _vals[0].value is None):
                NONNULL_CONSTS.add(_dump(ast.Attribute(value=ast.Name(id="constants", ctx=ast.Load()), attr=_n, ctx=ast.Load())))
    FOREIGN_HOME_MODULES.clear()
    FOREIGN_HOME_MODULES.update(n for n in trees if "." not in n)
    SIGS.clear()
    SIGS.update(build_signatures(trees.values()))
    CLASS_METHODS.clear()
    CLASS_METHODS.update(build_class_methods(trees.values()))
    FOREIGN.clear()
    FOREIGN.update(build_foreign(trees, KNOWN))
    from .nullness import Nullness
    globals()["NULLNESS"] = Nullness(trees)
    RET_ARITY.clear()
    RET_ARITY.update(build_ret_arity(trees.values()))
    NONNULL_LIST_PARAMS.clear()
    NONNULL_LIST_PARAMS.update(build_nonnull_list_params(trees.values()))
    canonicalise(t, modname, KNOWN, st, lg)
    want = sys.argv[3:]
    for node in ast.walk(t):
        if isinstance(node, (ast.FunctionDef, ast.AsyncFunctionDef)) and (not want or node.name in want):
            if node.body and isinstance(node.body[0], ast.Expr) and isinstance(node.body[0].value, ast.Constant) and isinstance(node.body[0].value.value, str):
                node.body = node.body[1:] or [ast.Pass()]
            if want:
                print(ast.unparse(node))
                print()
    if not want:
        for node in t.body:
            if isinstance(node, ast.ClassDef):
                for m in node.body:
                    if isinstance(m, (ast.FunctionDef, ast.AsyncFunctionDef)) and m.body and isinstance(m.body[0], ast.Expr) and isinstance(m.body[0].value, ast.Constant):
                        m.body = m.body[1:] or [ast.Pass()]
        print(ast.unparse(t))
    print("# stats:", st, file=sys.stderr)
    for l in lg:
        print("# log:", l, file=sys.stderr)
