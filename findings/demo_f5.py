"""Throw-away demonstration of F5 (not part of any check): a sync FAIL that overtakes the OKAY owed for the host's WRTE.
Before the fix push() ends in AdbTimeoutError; after it, in PushFailedError carrying the device's message."""
import sys
sys.path.insert(0, '/repo'); sys.path.insert(0, '/repo/tests')
from io import BytesIO
from adb_shell import constants, exceptions
from adb_shell.adb_device import AdbDevice
from adb_shell.adb_message import AdbMessage
from tests import patchers
from tests.filesync_helpers import FileSyncMessage

def jm(*ms): return b''.join(m.pack() + m.data for m in ms)
t = patchers.FakeTcpTransport('h', 5555)
d = AdbDevice(t)
t.bulk_read_data = jm(AdbMessage(constants.CNXN, 0, 4096, b'\0'))
d.connect()
fail = FileSyncMessage(constants.FAIL, data=b'no space')
t.bulk_read_data = jm(AdbMessage(constants.OKAY, 7, 1, b''),               # OPEN acknowledged, remote id 7
                      AdbMessage(constants.WRTE, 7, 1, fail.pack() + fail.data),  # FAIL overtakes ...
                      AdbMessage(constants.OKAY, 7, 1, b''),               # ... the OKAY for our WRTE
                      AdbMessage(constants.CLSE, 7, 1, b''))
try:
    d.push(BytesIO(b'x' * 10), '/data/x', mtime=5, read_timeout_s=0.2)
    print('returned normally')
except Exception as e:
    print(type(e).__name__, e)
