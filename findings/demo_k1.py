"""Demonstration of known finding K1 (C06) against the real code, single-threaded schedule:
stream 2's CLSE is read off the wire by the reader of stream 1 while the store has no entry for stream 2;
_AdbPacketStore.put() drops it, and stream 2's reader later times out instead of finishing."""
import sys
sys.path.insert(0, '/repo'); sys.path.insert(0, '/repo/tests')
from adb_shell import constants
from adb_shell.adb_device import AdbDevice
from adb_shell.adb_message import AdbMessage
from tests import patchers

def jm(*ms): return b''.join(m.pack() + m.data for m in ms)
t = patchers.FakeTcpTransport('h', 5555)
d = AdbDevice(t)
t.bulk_read_data = jm(AdbMessage(constants.CNXN, 0, 4096, b'\0'))
d.connect()
s1 = d.streaming_shell('a', read_timeout_s=0.2, decode=False)
s2 = d.streaming_shell('b', read_timeout_s=0.2, decode=False)
t.bulk_read_data = jm(AdbMessage(constants.OKAY, 101, 1, b''), AdbMessage(constants.WRTE, 101, 1, b'x'))
print('s1 ->', next(s1))
t.bulk_read_data = jm(AdbMessage(constants.OKAY, 102, 2, b''), AdbMessage(constants.WRTE, 102, 2, b'y'))
print('s2 ->', next(s2))
# the device closes stream 2, then writes to stream 1; the reader of stream 1 is the one on the wire
t.bulk_read_data = jm(AdbMessage(constants.CLSE, 102, 2, b''), AdbMessage(constants.WRTE, 101, 1, b'z'))
print('s1 ->', next(s1))
try:
    print('s2 ->', next(s2))
except StopIteration:
    print('s2 finished normally (CLSE delivered)')
except Exception as e:
    print('s2 FAILED:', type(e).__name__, str(e)[:80])
