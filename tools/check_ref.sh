#!/bin/sh
# usage: tools/check_ref.sh <refactoring-or-seeded-name> <Cxx> ...   (debug aid: apply the patch to a scratch copy and run checks on it)
name=$1; shift
d=$(mktemp -d /tmp/sa-cr-XXXXXX)
cp -r /repo/adb_shell $d/
p=/verif/refactorings/$name/patch.diff; [ -f $p ] || p=/verif/seeded/$name/patch.diff
(cd $d && patch -p1 -s < $p)
for c in "$@"; do /verif/check $c --root $d; done
rm -rf $d
