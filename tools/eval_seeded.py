#!/venv/bin/python
"""Confirm a seeded change and run every check against it.

usage: tools/eval_seeded.py <dir with patch.diff [+ demo.py]> [--keep-as <seeded id>] [--property Cxx]

Steps (all on a scratch export of /repo's HEAD under a temp dir, removed afterwards; /repo is never modified):
  1. export HEAD, apply patch.diff                       (must apply)
  2. run the unedited test-suite on the patched tree      (must pass: 177)
  3. run demo.py on the patched tree (must fail) and on a clean export (must pass)
  4. run all 20 checks with --root <patched tree>          (which properties raise VIOLATION / ANALYSIS-ERROR)
Writes meta.json next to the patch when --keep-as is given (copies the directory to /verif/seeded/<id>/).
"""
import json
import os
import shutil
import subprocess
import sys
import tempfile

VERIF = os.path.dirname(os.path.dirname(os.path.abspath(__file__)))
PY = "/venv/bin/python"


def export(dst):
    os.makedirs(dst)
    p1 = subprocess.Popen(["git", "-C", "/repo", "archive", "HEAD"], stdout=subprocess.PIPE)
    subprocess.check_call(["tar", "-x", "-C", dst], stdin=p1.stdout)
    p1.wait()


def run(cmd, cwd, timeout=900, env=None):
    e = dict(os.environ)
    e.update(env or {})
    e["PYTHONDONTWRITEBYTECODE"] = "1"
    try:
        r = subprocess.run(cmd, cwd=cwd, stdout=subprocess.PIPE, stderr=subprocess.STDOUT, timeout=timeout, env=e)
        return r.returncode, r.stdout.decode("utf-8", "replace")
    except subprocess.TimeoutExpired as x:
        return 124, (x.stdout or b"").decode("utf-8", "replace") + "\nTIMEOUT"


def main():
    args = sys.argv[1:]
    if not args:
        print(__doc__)
        return 2
    d = os.path.abspath(args[0])
    keep = args[args.index("--keep-as") + 1] if "--keep-as" in args else None
    prop = args[args.index("--property") + 1] if "--property" in args else None
    notests = "--no-tests" in args
    patch = os.path.join(d, "patch.diff")
    demo = os.path.join(d, "demo.py")
    tmp = tempfile.mkdtemp(prefix="seeded-eval-")
    out = {"dir": d, "property": prop}
    try:
        clean, bad = os.path.join(tmp, "clean"), os.path.join(tmp, "patched")
        export(clean)
        export(bad)
        rc, o = run(["patch", "-p1", "--no-backup-if-mismatch", "-i", patch], bad)
        out["applies"] = rc == 0
        if rc != 0:
            print("PATCH DOES NOT APPLY\n" + o)
            print(json.dumps(out))
            return 1
        rc, o = run([PY, "-c", "import compileall,sys; sys.exit(0 if compileall.compile_dir('adb_shell', quiet=1, legacy=False) else 1)"], bad)
        shutil.rmtree(os.path.join(bad, "adb_shell", "__pycache__"), ignore_errors=True)
        out["compiles"] = rc == 0
        if not notests:
            rc, o = run([PY, "-m", "pytest", "-q", "-p", "no:cacheprovider", "--timeout=900", "tests"], bad)
            tail = o.strip().splitlines()[-1] if o.strip() else ""
            out["tests_pass"] = rc == 0
            out["tests_tail"] = tail
        if os.path.exists(demo):
            rc1, o1 = run([PY, demo], bad, timeout=300, env={"PYTHONPATH": bad})        # the demo imports the package of the tree it is run in
            rc0, o0 = run([PY, demo], clean, timeout=300, env={"PYTHONPATH": clean})
            out["demo_fails_with_patch"] = rc1 != 0
            out["demo_passes_without"] = rc0 == 0
            out["demo_tail_patched"] = " | ".join(o1.strip().splitlines()[-3:])[-400:]
        fired, errors = {}, {}
        for i in range(1, 21):
            pid = "C%02d" % i
            rc, o = run([os.path.join(VERIF, "check"), pid, "--root", bad], VERIF, env={"SA_EVIDENCE_DIR": os.path.join(tmp, "ev")})
            v = [l for l in o.splitlines() if l.startswith("VIOLATION")]
            if rc == 1 and v:
                fired[pid] = [l.split("#", 1)[1].strip()[:220] if "#" in l else l for l in v[:3]]
            elif rc == 2:
                errors[pid] = o.strip().splitlines()[-1][:220]
        out["checks_fired"] = fired
        out["checks_analysis_error"] = errors
        out["caught_by_own_property"] = (prop in fired) if prop else None
        print(json.dumps(out, indent=1))
        if keep:
            dst = os.path.join(VERIF, "seeded", keep)
            os.makedirs(dst, exist_ok=True)
            for fn in os.listdir(d):
                if (fn in ("patch.diff", "demo.py", "notes.md") or fn.startswith("demo") or fn.startswith("test_")) and os.path.realpath(d) != os.path.realpath(dst):
                    shutil.copy(os.path.join(d, fn), os.path.join(dst, fn))
            meta = {"property": prop, "source": "independent sub-agent (given only the property text and a scratch worktree)",
                    "confirmed": {k: out.get(k) for k in ("applies", "compiles", "tests_pass", "tests_tail", "demo_fails_with_patch", "demo_passes_without")},
                    "ran": ["patch -p1 on an export of /repo HEAD", "pytest tests (unedited suite)", "demo.py on patched and on clean export", "./check Cxx --root <patched> for all 20 properties"],
                    "checks_fired": fired, "checks_analysis_error": errors}
            notes = os.path.join(d, "notes.md")
            if os.path.exists(notes):
                meta["needs_to_manifest"] = " ".join(open(notes).read().split())[:1500]
            try:
                old = json.load(open(os.path.join(dst, "meta.json")))
                for k_ in ("declined", "owner", "owner_why"):
                    if old.get(k_):
                        meta[k_] = old[k_]          # a recorded decision, not a measurement
            except (OSError, ValueError):
                pass
            with open(os.path.join(dst, "meta.json"), "w") as f:
                json.dump(meta, f, indent=1)
        return 0
    finally:
        shutil.rmtree(tmp, ignore_errors=True)


if __name__ == "__main__":
    sys.exit(main())
