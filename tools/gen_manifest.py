#!/venv/bin/python
"""Regenerate /verif/MANIFEST.json from the rule modules that exist (fail-closed: a property without rules is not claimed)."""
import json
import os

HERE = os.path.dirname(os.path.dirname(os.path.abspath(__file__)))

INFO = {
 "C01": ("CFG + def-use: consume-exactly-once pairing (payload read -> yield), loop-exit-only-on-CLSE, term check of join/decode", "5 C01",
         "decides: every WRTE payload read on the stream is yielded exactly once, unmodified and in order; the drain loop ends only on CLSE; shell/exec_out join with b'' then decode once with a non-raising handler, streaming decodes per item; stream isolation by id comparison in the pump. Not decided: the decoded text values (bytes.decode trusted)."),
 "C02": ("term normalisation of the six header fields vs AOSP header; who-may-write the transport; header-then-payload typestate", "5 C02",
         "decides: sole writer of the transport, header-then-payload shape, six header fields as normalised terms, command table vs protocol.txt, pack/unpack agreement, message immutability. Trusts struct semantics."),
 "C03": ("loop-invariant check of the read-exactly primitive; dominance of command/checksum rejection over delivery; who-may-read", "5 C03",
         "decides: invariant remaining+len(acc)=requested with request size = remaining, exits only at 0; header/payload sizes; InvalidCommandError/InvalidChecksumError dominate every delivering return. Assumes transports return at most n bytes (C18/C20)."),
 "C04": ("slot terms and local/remote id kinds per construction site; who-may-send per command; one-OKAY-per-WRTE and WRTE->await-OKAY path rules; no-send-after-CLSE typestate", "5 C04",
         "decides: OPEN/OKAY/WRTE/CLSE field terms and id kinds, exactly one OKAY per delivered WRTE on every path, stop-and-wait, close handshakes, nothing sent after CLSE. Not decided: device-side orderings."),
 "C05": ("typestate over the CFG of the manager's connect (SEND/READ/SIGN/CALLBACK/RETURN events) with value-set refinement of the command", "5 C05",
         "decides: first packet CNXN(version, maxdata, host::banner NUL), success iff CNXN, freshest token signed by the loop key, key order, callback once after exhaustion, public key of key 0 + NUL, auth timeout, exceptions, availability bookkeeping. Not decided: signature validity (C17), device choices."),
 "C06": ("lock discipline (guarded-by, with-only, order, deny-list), store re-check inside the wire critical section, routing by the packet's own ids, no-drop on park", "5 C06",
         "decides the schedule-independent necessary conditions: lock discipline, re-check under the transport lock, routing of foreign packets, every parked packet is enqueued. Not decided: enumeration of schedules / 'same result as alone'."),
 "C07": ("event typestate SEND/DATA*/DONE on _push, read->send pairing, linear size bounds (chunk <= 64KiB, WRTE <= maxdata), cursor arithmetic, directory path terms, stream duck-typing", "5 C07",
         "decides: SEND first once with 'path,mode', each chunk read is sent once as DATA, DONE with mtime-or-now, return only after sync OKAY, chunk and WRTE size bounds, directory path derivation, callback containment, receiver conformance of the stream. Not decided: file-system behaviour."),
 "C08": ("take-exactly-n buffered reader invariants, record->write pairing, exit on DONE only, close in finally (all paths)", "5 C08",
         "decides: buffered reader slices [:n]/[n:], append-once of each WRTE payload, DATA record -> stream.write once in order, loop leaves only on DONE, _clse in finally, callback contained."),
 "C09": ("record layouts vs SYNC.TXT, field order terms into DeviceFile / stat triple, pairing, close post-dominates", "5 C09",
         "decides: LIST/STAT/DENT formats and sizes, DeviceFile(name, mode, size, mtime) from header fields 1..3 in order, one entry per DENT before DONE, stat triple, stream closed afterwards."),
 "C10": ("exception-path rules: FAIL -> documented exception with the device's bytes, invalid id -> InvalidResponseError, no swallowing handler, no own-stream packet discarded while awaiting the OKAY", "5 C10",
         "decides: FAIL/invalid-id mapping in _filesync_read, push status read {OKAY, FAIL} -> PushFailedError(data), no swallowing handlers, the flush keeps early WRTE payloads. Not decided: timing on a real device."),
 "C11": ("deadline discipline on every loop around a non-progress I/O call; timeout forwarding terms; order reasoning on min()", "5 C11",
         "decides: every loop containing a non-progress I/O call has an unconditional deadline check per cycle raising AdbTimeoutError; timeouts forwarded to every transport call; transport <= read <= total by min(). Not decided: the numeric bound, None/negative timeouts."),
 "C12": ("with-only lock discipline, reset-before-connect dominance, census of mutable session state, escape check of per-call objects, error discipline on the I/O path", "5 C12",
         "decides: no lock survives an exception, connect() closes the transport and clears the store first, close() resets, no unclassified long-lived mutable state, no swallowing handlers. Not decided: 'every later operation behaves correctly'."),
 "C13": ("must-fact (guard) dominance per public operation over every I/O-reaching or file-opening node; closed writer set of the availability flag", "5 C13",
         "decides per method, history-free: availability and empty-path guards dominate all I/O and local opens; flag writers closed; connect returns constant True. Subsumes history enumeration."),
 "C14": ("guarded-by check of the id counter, increment+wrap+capture in one critical section, interval analysis [1, 2^32-1]", "5 C14",
         "decides: counter touched only under its lock; increment, wrap test and capture in one with-body; value in [1, 2^32-1]. Not decided: uniqueness across a full 2^32 wrap with a live stream."),
 "C15": ("return-value-consumed rule: every transport write's count feeds a write-all loop; transports report the true count", "5 C15",
         "decides: every bulk_write outside the transport package is the body of a write-all loop (offset from 0, advanced by the count, exit only when nothing remains); TCP/USB bulk_write return the library's count. Not decided: kernel socket behaviour."),
 "C16": ("translation validation: normalised-AST equality of every sync/async function pair; contract table for the TCP twins", "5 C16",
         "decides: each async function equals its sync twin after erasing async/await and mapping the async idioms; unpaired definitions are violations; TCP twins agree on interface and count contract."),
 "C17": ("term check of the RSAPublicKey blob vs android_pubkey.c; signer API conformance (prehashed SHA-1, PKCS#1 v1.5)", "5 C17",
         "decides: blob layout and Montgomery terms (n0inv, rr), key file = base64(blob)+' user@host', each signer passes the token unhashed with the SHA-1 DigestInfo. Not decided: arithmetic inside the crypto libraries."),
 "C18": ("pass-through and mapping rules on the TCP transports (size, result, timeout, exception, close/reset)", "5 C18",
         "decides: numbytes and result pass through unchanged, timeout reaches select/async_timeout unchanged, timeout -> TcpTimeoutException exactly on the not-ready branch, close idempotent and resetting, connect rebinds. Not decided: wall-clock bounds, OS fragmentation, loopback sessions."),
 "C19": ("local/remote key-kind discipline on the dict of dicts, non-empty guard on every find result, FIFO queue class, CLSE forgets, fall-back order", "5 C19",
         "decides: outer key local / inner key remote everywhere, every pair returned by find is governed by 'queue not empty', FIFO queue with (cmd, data) order preserved, get(CLSE) clears, clear/clear_all/len, zero fall-backs. Not decided: equivalence with a reference model over histories."),
 "C20": ("API-conformance rules on the USB transport: claim on connect, endpoint direction, size pass-through, ms conversion, error mapping, use-after-close guard", "5 C20",
         "decides: claimInterface on connect, IN endpoint for reads / OUT for writes, numbytes passed, timeout int(t*1000) or default, usb1.USBError -> Usb{Read,Write}FailedError, None-guard. Not decided: libusb behaviour, sessions."),
}

LEVELS = {"C16": "translation_validation"}


def main():
    props = [json.loads(l) for l in open(os.path.join(HERE, "properties.jsonl"))]
    checks = []
    na = []
    for p in props:
        pid = p["id"]
        have = os.path.exists(os.path.join(HERE, "sa", "rules", pid.lower() + ".py"))
        tech, ref, note = INFO[pid]
        if not have:
            na.append({"property_id": pid, "reason": "static rules for this property are not built yet (see DESIGN.md section %s); not claimed until they exist" % ref})
            continue
        checks.append({
            "property_id": pid,
            "quick_cmd": "./check %s --tier quick" % pid,
            "thorough_cmd": "./check %s --tier thorough" % pid,
            "evidence_file": "/verif/evidence/%s.json" % pid,
            "replay_cmd_template": "./check %s --replay {path}" % pid,
            "engine": "sa",
            "level_claimed": {
                "category": LEVELS.get(pid, "other"),
                "text": "Static analysis of /repo's current source (ast, CFG, dataflow, call graph, term normalisation): structural necessary conditions of the property are decided for all paths at once; " + note,
                "design_ref": "DESIGN.md section " + ref,
            },
            "level_note": note + " Trusted: Python 3 semantics of the whitelisted builtins, documented library behaviour, the oracle tables transcribed from AOSP, the analyser itself (mitigated by the seed/control self-test of the thorough tier).",
            "technique": "static analysis: " + tech,
        })
    m = {
        "version": 1,
        "setup_cmd": "/venv/bin/python -B -m sa --version",
        "hooks": {
            "guard": "ADB_SHELL_VERIF",
            "enable": "no hooks: the checks only parse /repo's source, nothing is built or run",
            "baseline_off_cmd": "cd /repo && /venv/bin/python -m pytest -ra -q -p no:cacheprovider --timeout=900 --continue-on-collection-errors",
            "source_commits": [],
            "add_only": True,
        },
        "engines": [{"name": "sa", "path": "/verif/sa", "serves_properties": [c["property_id"] for c in checks],
                     "kind_free_text": "repository-specific static analyser on the stdlib ast: loader, constant folder, statement CFG with dominators, reaching definitions and must-facts, 0-CFA call graph, term normaliser; rule families WMC/DOM/CEO/TERM/CONST/KIND/ARG/LOCK/LOOP/EXC/ND/RET/DUCK/TWIN"}],
        "checks": checks,
        "notes": "Family: static analysis only. Exit 0 = all obligations discharged (or only listed known findings), 1 = VIOLATION line per unlisted violation, 2 = ANALYSIS-ERROR (analyser cannot vouch). Known findings: /verif/known_findings.json.",
        "not_applicable": na,
    }
    with open(os.path.join(HERE, "MANIFEST.json"), "w") as f:
        json.dump(m, f, indent=1)
    print("claimed:", [c["property_id"] for c in checks])
    print("not claimed:", [x["property_id"] for x in na])


if __name__ == "__main__":
    main()
