#!/venv/bin/python
"""Debug aid: apply one self-test mutant (by id) to a scratch copy and run a property check on it, printing the report lines.
usage: tools/try_mutant.py <Cxx> <mutant-id> [funcs to print canonically: file.py:func ...]"""
import os, shutil, subprocess, sys, tempfile
VERIF = os.path.dirname(os.path.dirname(os.path.abspath(__file__)))
sys.path.insert(0, VERIF)
from sa.selftest import load_mutants, apply_edits
pid, mid = sys.argv[1], sys.argv[2]
m = [x for x in load_mutants(pid) if x["id"] == mid]
if not m:
    sys.exit("no mutant %s for %s" % (mid, pid))
d = tempfile.mkdtemp(prefix="sa-try-")
try:
    shutil.copytree("/repo/adb_shell", os.path.join(d, "adb_shell"))
    why = apply_edits(d, m[0]["edits"]) if "edits" in m[0] else None
    if "patch" in m[0]:
        subprocess.check_call(["patch", "-p1", "-s", "-i", m[0]["patch"]], cwd=d)
    if why:
        sys.exit("skipped: " + why)
    for spec in sys.argv[3:]:
        rel, fn = spec.split(":")
        subprocess.call(["/venv/bin/python", "-m", "sa.canon", os.path.join(d, "adb_shell", rel), rel[:-3].replace("/", "."), fn], cwd=VERIF)
    subprocess.call([os.path.join(VERIF, "check"), pid, "--root", d])
finally:
    shutil.rmtree(d)
