#!/venv/bin/python
"""Apply each behaviour-preserving global control to a scratch copy and run all 20 checks: every check must stay silent."""
import multiprocessing
import os
import shutil
import sys
import tempfile

sys.path.insert(0, os.path.dirname(os.path.dirname(os.path.abspath(__file__))))
from sa.mutants.controls_global import MUTANTS   # noqa
from sa.selftest import apply_edits               # noqa


def work(m):
    d = tempfile.mkdtemp(prefix="sa-gctl-")
    try:
        shutil.copytree("/repo/adb_shell", os.path.join(d, "adb_shell"), ignore=shutil.ignore_patterns("__pycache__"))
        why = apply_edits(d, m["edits"])
        if why:
            return m["id"], "skipped: " + why, {}
        os.environ["SA_EVIDENCE_DIR"] = os.path.join(d, "ev")
        from sa import report
        report.EVIDENCE_DIR = os.environ["SA_EVIDENCE_DIR"]
        from sa.cli import run_property
        from sa.engine import Ctx
        import io, contextlib
        res = {}
        buf = io.StringIO()
        with contextlib.redirect_stdout(buf):
            ctx = Ctx(d)
            for i in range(1, 21):
                pid = "C%02d" % i
                code, R, new, known = run_property(pid, "quick", 0, d, quiet=True, ctx=ctx)
                if code != 0:
                    res[pid] = (code, [v.key for v in new][:3] or buf.getvalue().strip().splitlines()[-1:])
        return m["id"], "ok", res
    finally:
        shutil.rmtree(d, ignore_errors=True)


if __name__ == "__main__":
    bad = 0
    with multiprocessing.Pool(min(16, len(MUTANTS))) as pool:
        for mid, status, res in pool.imap_unordered(work, MUTANTS):
            print("%-26s %s %s" % (mid, status, "SILENT" if not res else res))
            bad += 1 if (res or status != "ok") else 0
    sys.exit(1 if bad else 0)
