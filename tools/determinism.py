#!/venv/bin/python
"""Run every check under several interpreter hash seeds and compare the complete obligation lists (development aid: a verdict
must not depend on set iteration order).  usage: tools/determinism.py [root] [nseeds]"""
import hashlib, json, os, subprocess, sys
VERIF = os.path.dirname(os.path.dirname(os.path.abspath(__file__)))
root = sys.argv[1] if len(sys.argv) > 1 else "/repo"
nseeds = int(sys.argv[2]) if len(sys.argv) > 2 else 6
CODE = r'''
import sys, io, contextlib, json, os, tempfile
sys.path.insert(0, %r)
os.environ["SA_EVIDENCE_DIR"] = tempfile.mkdtemp(prefix="sa-det-")
from sa import report
report.EVIDENCE_DIR = os.environ["SA_EVIDENCE_DIR"]
from sa.cli import run_property
from sa.engine import Ctx
out = {}
buf = io.StringIO()
with contextlib.redirect_stdout(buf):
    ctx = Ctx(%r)
    for i in range(1, 21):
        pid = "C%%02d" %% i
        code, R, new, known = run_property(pid, "quick", 0, %r, quiet=True, ctx=ctx)
        out[pid] = [code, sorted("%%s|%%s|%%s" %% (o.rule, o.subject, o.ok) for o in (R.obligations if R else []))]
import shutil; shutil.rmtree(os.environ["SA_EVIDENCE_DIR"], ignore_errors=True)
print(json.dumps(out))
''' % (VERIF, root, root)
ref = None
bad = 0
for seed in range(nseeds):
    r = subprocess.run(["/venv/bin/python", "-B", "-c", CODE], env=dict(os.environ, PYTHONHASHSEED=str(seed * 7919 + 1)), stdout=subprocess.PIPE, stderr=subprocess.PIPE, text=True)
    try:
        out = json.loads(r.stdout.strip().splitlines()[-1])
    except Exception:
        print("seed", seed, "failed:", r.stderr[-500:])
        bad += 1
        continue
    if ref is None:
        ref = out
        continue
    for pid in sorted(out):
        if out[pid] != ref[pid]:
            bad += 1
            a, b = set(ref[pid][1]), set(out[pid][1])
            print("seed %d: %s differs (exit %s vs %s): only first %s; only this %s" % (seed, pid, ref[pid][0], out[pid][0], sorted(a - b)[:3], sorted(b - a)[:3]))
print("determinism: %d seeds, %d differences" % (nseeds, bad))
sys.exit(1 if bad else 0)
