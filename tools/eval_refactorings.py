#!/venv/bin/python
"""Apply each behaviour-preserving refactoring of /verif/refactorings/<id>/patch.diff to a scratch copy of /repo's
package and run all 20 checks on it: every check must stay silent (a report here is a false alarm to fix in the rules).

usage: tools/eval_refactorings.py [name-prefix ...] [-v]
"""
import multiprocessing
import os
import shutil
import subprocess
import sys
import tempfile

VERIF = os.path.dirname(os.path.dirname(os.path.abspath(__file__)))
sys.path.insert(0, VERIF)
ROOT = os.path.join(VERIF, "refactorings")


def work(name):
    d = tempfile.mkdtemp(prefix="sa-ref-")
    try:
        shutil.copytree("/repo/adb_shell", os.path.join(d, "adb_shell"), ignore=shutil.ignore_patterns("__pycache__"))
        r = subprocess.run(["patch", "-p1", "-s", "--no-backup-if-mismatch", "-i", os.path.join(ROOT, name, "patch.diff")], cwd=d, stdout=subprocess.PIPE, stderr=subprocess.STDOUT)
        if r.returncode != 0:
            return name, "skipped: patch does not apply", {}
        os.environ["SA_EVIDENCE_DIR"] = os.path.join(d, "ev")
        from sa import report
        report.EVIDENCE_DIR = os.environ["SA_EVIDENCE_DIR"]
        from sa.cli import run_property
        from sa.engine import Ctx
        import io
        import contextlib
        res = {}
        buf = io.StringIO()
        with contextlib.redirect_stdout(buf):
            try:
                ctx = Ctx(d)
            except Exception as e:   # noqa
                return name, "ok", {"*": (2, [str(e)[:200]])}
            for i in range(1, 21):
                pid = "C%02d" % i
                n0 = len(buf.getvalue())
                code, R, new, known = run_property(pid, "quick", 0, d, quiet=True, ctx=ctx)
                if code != 0:
                    res[pid] = (code, [v.key for v in new][:3] or buf.getvalue()[n0:].strip().splitlines()[-1:])
        return name, "ok", res
    finally:
        shutil.rmtree(d, ignore_errors=True)


if __name__ == "__main__":
    args = [a for a in sys.argv[1:] if not a.startswith("-")]
    verbose = "-v" in sys.argv
    names = sorted(n for n in os.listdir(ROOT) if os.path.isfile(os.path.join(ROOT, n, "patch.diff")) and (not args or any(n.startswith(a) for a in args)))
    bad = 0
    with multiprocessing.Pool(min(16, max(1, len(names)))) as pool:
        for name, status, res in sorted(pool.imap_unordered(work, names)):
            if res or status != "ok":
                bad += 1
                print("%-10s %s" % (name, status))
                for pid, (code, keys) in sorted(res.items()):
                    print("    %s exit %d %s" % (pid, code, "; ".join(str(k)[: (400 if verbose else 160)] for k in keys)))
            elif verbose:
                print("%-10s silent" % name)
    print("%d refactorings, %d with alarms" % (len(names), bad))
    sys.exit(1 if bad else 0)
