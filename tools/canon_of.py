#!/venv/bin/python
"""Debug aid: print the canonical form of functions of a refactoring variant.  usage: tools/canon_of.py <refactoring-name|-> <file rel to adb_shell> [func ...]"""
import os, shutil, subprocess, sys, tempfile
VERIF = os.path.dirname(os.path.dirname(os.path.abspath(__file__)))
name, rel, funcs = sys.argv[1], sys.argv[2], sys.argv[3:]
d = tempfile.mkdtemp(prefix="sa-canon-")
try:
    shutil.copytree("/repo/adb_shell", os.path.join(d, "adb_shell"))
    if name != "-":
        pd = os.path.join(VERIF, "refactorings", name, "patch.diff")
        if not os.path.exists(pd):
            pd = os.path.join(VERIF, "seeded", name, "patch.diff")
        subprocess.check_call(["patch", "-p1", "-s", "-i", pd], cwd=d)
    subprocess.call(["/venv/bin/python", "-m", "sa.canon", os.path.join(d, "adb_shell", rel), rel[:-3].replace("/", ".")] + funcs, cwd=VERIF)
finally:
    shutil.rmtree(d)
