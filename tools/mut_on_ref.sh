#!/bin/sh
# usage: tools/mut_on_ref.sh <refactoring> <file rel to adb_shell> <python-regex> <replacement> <Cxx> ...
# debug aid: apply a behaviour-preserving variant, then break it with one substitution inside the refactored code, and run checks: they must fire.
name=$1; file=$2; pat=$3; rep=$4; shift 4
d=$(mktemp -d /tmp/sa-mr-XXXXXX)
cp -r /repo/adb_shell $d/
[ "$name" = "-" ] || (cd $d && patch -p1 -s < /verif/refactorings/$name/patch.diff)
/venv/bin/python - "$d/adb_shell/$file" "$pat" "$rep" <<'PY'
import re, sys
p, pat, rep = sys.argv[1:4]
s = open(p).read()
n = len(re.findall(pat, s))
if n == 0:
    print("MUTATION DID NOT APPLY"); sys.exit(0)
open(p, "w").write(re.sub(pat, rep, s))
print("mutated %d site(s)" % n)
PY
/venv/bin/python -c "import ast,sys; ast.parse(open('$d/adb_shell/$file').read())" || echo "SYNTAX ERROR"
for c in "$@"; do /verif/check $c --root $d 2>&1 | tail -3 | cut -c1-300; done
rm -rf $d
