#!/venv/bin/python
"""Systematic first-order mutation sweep (development aid, not a registered check).

Generates syntactic mutants of the sync-side sources (comparison / boolean operators, small integer constants,
adjacent-argument swaps, statement deletions, break/continue, command-constant swaps), and for each one asks:
  (1) do the 19 property checks other than C16 report it?   (C16 would flag every sync-only edit)
  (2) if not: does the unedited test-suite still pass?
Mutants that survive both are candidate blind spots; they are written to the output file for manual triage
(equivalent mutant / not property-relevant / genuine gap -> new rule).  Nothing here feeds a verdict.

usage: tools/mutation_sweep.py [--files a.py,b.py] [--limit N] [--out FILE] [--jobs 16] [--no-tests]
"""
import ast
import copy
import json
import multiprocessing
import os
import random
import shutil
import subprocess
import sys
import tempfile

VERIF = os.path.dirname(os.path.dirname(os.path.abspath(__file__)))
sys.path.insert(0, VERIF)
PY = "/venv/bin/python"
DEFAULT_FILES = ["adb_device.py", "hidden_helpers.py", "adb_message.py", "constants.py", "transport/tcp_transport.py", "transport/tcp_transport_async.py",
                 "auth/keygen.py", "auth/sign_cryptography.py", "auth/sign_pythonrsa.py", "auth/sign_pycryptodome.py"]

from sa.sweep import mutants_of, mutants2_of, mutants3_of, mutants4_of, apply   # noqa: E402


def analyse(args):
    rel, desc, lineno, src_text, run_tests = args
    d = tempfile.mkdtemp(prefix="sa-sweep-")
    try:
        shutil.copytree("/repo/adb_shell", os.path.join(d, "adb_shell"), ignore=shutil.ignore_patterns("__pycache__"))
        with open(os.path.join(d, "adb_shell", rel), "w") as f:
            f.write(src_text)
        os.environ["SA_EVIDENCE_DIR"] = os.path.join(d, "ev")
        from sa import report
        report.EVIDENCE_DIR = os.environ["SA_EVIDENCE_DIR"]
        from sa.cli import run_property
        from sa.engine import Ctx
        from sa.loader import AnalysisError
        import io
        import contextlib
        fired, errors = [], []
        buf = io.StringIO()
        with contextlib.redirect_stdout(buf):
            try:
                ctx = Ctx(d)
            except AnalysisError:
                return rel, desc, lineno, ["E0"], [], None
            for i in range(1, 21):
                pid = "C%02d" % i
                if pid == "C16":
                    continue
                code, R, new, known = run_property(pid, "quick", 0, d, quiet=True, ctx=ctx)
                if code == 1:
                    fired.append(pid)
                elif code == 2:
                    errors.append(pid)
        tests = None
        if not fired and run_tests:
            shutil.copytree("/repo/tests", os.path.join(d, "tests"), ignore=shutil.ignore_patterns("__pycache__"))
            r = subprocess.run([PY, "-m", "pytest", "-q", "-x", "-p", "no:cacheprovider", "--timeout=120", "tests"], cwd=d, stdout=subprocess.PIPE, stderr=subprocess.STDOUT,
                               env=dict(os.environ, PYTHONDONTWRITEBYTECODE="1"))
            tests = r.returncode == 0
        return rel, desc, lineno, fired, errors, tests
    finally:
        shutil.rmtree(d, ignore_errors=True)


def main():
    a = sys.argv[1:]
    files = a[a.index("--files") + 1].split(",") if "--files" in a else DEFAULT_FILES
    limit = int(a[a.index("--limit") + 1]) if "--limit" in a else None
    out = a[a.index("--out") + 1] if "--out" in a else "/tmp/mutation_sweep.json"
    jobs = int(a[a.index("--jobs") + 1]) if "--jobs" in a else 16
    run_tests = "--no-tests" not in a
    work = []
    for rel in files:
        src = open(os.path.join("/repo/adb_shell", rel)).read()
        tree = ast.parse(src)
        for desc, lineno, op in (mutants4_of(tree) if "--set4" in a else mutants3_of(tree) if "--set3" in a else mutants2_of(tree) if "--set2" in a else mutants_of(tree)):
            try:
                txt = ast.unparse(apply(tree, op))
                ast.parse(txt)
            except Exception:   # noqa
                continue
            work.append((rel, desc, lineno, txt, run_tests))
    random.Random(0).shuffle(work)
    if limit:
        work = work[:limit]
    print("%d mutants" % len(work), flush=True)
    res = []
    with multiprocessing.Pool(jobs) as pool:
        for i, r in enumerate(pool.imap_unordered(analyse, work)):
            res.append(r)
            if (i + 1) % 100 == 0:
                print("  %d done" % (i + 1), flush=True)
    killed = [r for r in res if r[3]]
    survivors = [r for r in res if not r[3]]
    pass_tests = [r for r in survivors if r[5]]
    print("total %d, reported by a property check %d, not reported %d (of which the test-suite still passes: %d)" % (len(res), len(killed), len(survivors), len(pass_tests)))
    with open(out, "w") as f:
        json.dump({"total": len(res), "killed": len(killed), "survivors_passing_tests": [{"file": r[0], "line": r[2], "mutant": r[1], "analysis_error": r[4]} for r in sorted(pass_tests)],
                   "survivors_failing_tests": len(survivors) - len(pass_tests)}, f, indent=1)
    print("survivors that also pass the tests written to", out)


if __name__ == "__main__":
    main()
