#!/venv/bin/python
"""Systematic first-order mutation sweep (development aid, not a registered check).

Generates syntactic mutants of the sync-side sources (comparison / boolean operators, small integer constants,
adjacent-argument swaps, statement deletions, break/continue, command-constant swaps), and for each one asks:
  (1) do the 19 property checks other than C16 report it?   (C16 would flag every sync-only edit)
  (2) if not: does the unedited test-suite still pass?
Mutants that survive both are candidate blind spots; they are written to the output file for manual triage
(equivalent mutant / not property-relevant / genuine gap -> new rule).  Nothing here feeds a verdict.

usage: tools/mutation_sweep.py [--files a.py,b.py] [--limit N] [--out FILE] [--jobs 16] [--no-tests]
"""
import ast
import copy
import json
import multiprocessing
import os
import random
import shutil
import subprocess
import sys
import tempfile

VERIF = os.path.dirname(os.path.dirname(os.path.abspath(__file__)))
sys.path.insert(0, VERIF)
PY = "/venv/bin/python"
DEFAULT_FILES = ["adb_device.py", "hidden_helpers.py", "adb_message.py", "constants.py", "transport/tcp_transport.py", "transport/tcp_transport_async.py",
                 "auth/keygen.py", "auth/sign_cryptography.py", "auth/sign_pythonrsa.py", "auth/sign_pycryptodome.py"]

CMP = {ast.Eq: [ast.NotEq], ast.NotEq: [ast.Eq], ast.Lt: [ast.LtE, ast.Gt], ast.LtE: [ast.Lt], ast.Gt: [ast.GtE, ast.Lt], ast.GtE: [ast.Gt],
       ast.In: [ast.NotIn], ast.NotIn: [ast.In], ast.Is: [ast.IsNot], ast.IsNot: [ast.Is]}
CMDS = ["AUTH", "CLSE", "CNXN", "OKAY", "OPEN", "WRTE", "DATA", "DENT", "DONE", "FAIL", "LIST", "RECV", "SEND", "STAT"]


def mutants_of(tree):
    """Yield (description, lineno, mutated_tree)."""
    nodes = list(ast.walk(tree))
    # parent map for statement deletion
    for idx, n in enumerate(nodes):
        if isinstance(n, ast.Compare) and len(n.ops) == 1:
            for new in CMP.get(type(n.ops[0]), []):
                yield ("cmp %s->%s" % (type(n.ops[0]).__name__, new.__name__), n.lineno, ("cmp", idx, new))
        if isinstance(n, ast.BoolOp):
            yield ("boolop swap", n.lineno, ("boolop", idx))
        if isinstance(n, ast.UnaryOp) and isinstance(n.op, ast.Not):
            yield ("drop not", n.lineno, ("dropnot", idx))
        if isinstance(n, ast.Constant) and isinstance(n.value, int) and not isinstance(n.value, bool) and hasattr(n, "lineno"):
            for d in (1, -1):
                yield ("const %d->%d" % (n.value, n.value + d), n.lineno, ("const", idx, n.value + d))
        if isinstance(n, ast.Constant) and isinstance(n.value, bool) and hasattr(n, "lineno"):
            yield ("bool flip", n.lineno, ("const", idx, not n.value))
        if isinstance(n, ast.Call) and len(n.args) >= 2 and not any(isinstance(a, ast.Starred) for a in n.args):
            for i in range(len(n.args) - 1):
                yield ("swap args %d,%d of %s" % (i, i + 1, ast.unparse(n.func)[:30]), n.lineno, ("swap", idx, i))
        if isinstance(n, ast.Attribute) and isinstance(n.value, ast.Name) and n.value.id == "constants" and n.attr in CMDS:
            for other in CMDS:
                if other != n.attr and abs(CMDS.index(other) - CMDS.index(n.attr)) <= 2:
                    yield ("constants.%s->%s" % (n.attr, other), n.lineno, ("attr", idx, other))
        if isinstance(n, ast.Break):
            yield ("break->continue", n.lineno, ("replace_stmt", idx, "continue"))
        if isinstance(n, ast.Continue):
            yield ("continue->break", n.lineno, ("replace_stmt", idx, "break"))
        if isinstance(n, (ast.BinOp,)) and isinstance(n.op, (ast.Add, ast.Sub)):
            yield ("binop +/-", n.lineno, ("binop", idx))
        if isinstance(n, (ast.FunctionDef, ast.AsyncFunctionDef, ast.If, ast.While, ast.For, ast.AsyncFor, ast.With, ast.AsyncWith, ast.Try)):
            for field in ("body", "orelse", "finalbody"):
                body = getattr(n, field, None)
                if not isinstance(body, list):
                    continue
                for j, st in enumerate(body):
                    if isinstance(st, (ast.Expr, ast.Assign, ast.AugAssign)) and not (isinstance(st, ast.Expr) and isinstance(st.value, ast.Constant)):
                        if len(body) > 1 or True:
                            yield ("delete `%s`" % ast.unparse(st)[:50].replace("\n", " "), st.lineno, ("delete", idx, field, j))


def apply(tree, op):
    t = copy.deepcopy(tree)
    nodes = list(ast.walk(t))
    kind = op[0]
    n = nodes[op[1]]
    if kind == "cmp":
        n.ops = [op[2]()]
    elif kind == "boolop":
        n.op = ast.Or() if isinstance(n.op, ast.And) else ast.And()
    elif kind == "dropnot":
        # replace `not x` by `x`: mutate in place into a no-op unary via double negation removal
        n.op = ast.UAdd() if False else n.op
        parent_replace(t, n, n.operand)
    elif kind == "const":
        n.value = op[2]
    elif kind == "swap":
        i = op[2]
        n.args[i], n.args[i + 1] = n.args[i + 1], n.args[i]
    elif kind == "attr":
        n.attr = op[2]
    elif kind == "replace_stmt":
        parent_replace(t, n, ast.Continue() if op[2] == "continue" else ast.Break())
    elif kind == "binop":
        n.op = ast.Sub() if isinstance(n.op, ast.Add) else ast.Add()
    elif kind == "delete":
        body = getattr(n, op[2])
        body[op[3]] = ast.Pass()
    ast.fix_missing_locations(t)
    return t


def parent_replace(tree, old, new):
    for p in ast.walk(tree):
        for field, val in ast.iter_fields(p):
            if val is old:
                setattr(p, field, new)
                return
            if isinstance(val, list):
                for i, x in enumerate(val):
                    if x is old:
                        val[i] = new
                        return


def analyse(args):
    rel, desc, lineno, src_text, run_tests = args
    d = tempfile.mkdtemp(prefix="sa-sweep-")
    try:
        shutil.copytree("/repo/adb_shell", os.path.join(d, "adb_shell"), ignore=shutil.ignore_patterns("__pycache__"))
        with open(os.path.join(d, "adb_shell", rel), "w") as f:
            f.write(src_text)
        os.environ["SA_EVIDENCE_DIR"] = os.path.join(d, "ev")
        from sa import report
        report.EVIDENCE_DIR = os.environ["SA_EVIDENCE_DIR"]
        from sa.cli import run_property
        from sa.engine import Ctx
        from sa.loader import AnalysisError
        import io
        import contextlib
        fired, errors = [], []
        buf = io.StringIO()
        with contextlib.redirect_stdout(buf):
            try:
                ctx = Ctx(d)
            except AnalysisError:
                return rel, desc, lineno, ["E0"], [], None
            for i in range(1, 21):
                pid = "C%02d" % i
                if pid == "C16":
                    continue
                code, R, new, known = run_property(pid, "quick", 0, d, quiet=True, ctx=ctx)
                if code == 1:
                    fired.append(pid)
                elif code == 2:
                    errors.append(pid)
        tests = None
        if not fired and run_tests:
            shutil.copytree("/repo/tests", os.path.join(d, "tests"), ignore=shutil.ignore_patterns("__pycache__"))
            r = subprocess.run([PY, "-m", "pytest", "-q", "-x", "-p", "no:cacheprovider", "--timeout=120", "tests"], cwd=d, stdout=subprocess.PIPE, stderr=subprocess.STDOUT,
                               env=dict(os.environ, PYTHONDONTWRITEBYTECODE="1"))
            tests = r.returncode == 0
        return rel, desc, lineno, fired, errors, tests
    finally:
        shutil.rmtree(d, ignore_errors=True)


def main():
    a = sys.argv[1:]
    files = a[a.index("--files") + 1].split(",") if "--files" in a else DEFAULT_FILES
    limit = int(a[a.index("--limit") + 1]) if "--limit" in a else None
    out = a[a.index("--out") + 1] if "--out" in a else "/tmp/mutation_sweep.json"
    jobs = int(a[a.index("--jobs") + 1]) if "--jobs" in a else 16
    run_tests = "--no-tests" not in a
    work = []
    for rel in files:
        src = open(os.path.join("/repo/adb_shell", rel)).read()
        tree = ast.parse(src)
        for desc, lineno, op in mutants_of(tree):
            try:
                txt = ast.unparse(apply(tree, op))
                ast.parse(txt)
            except Exception:   # noqa
                continue
            work.append((rel, desc, lineno, txt, run_tests))
    random.Random(0).shuffle(work)
    if limit:
        work = work[:limit]
    print("%d mutants" % len(work), flush=True)
    res = []
    with multiprocessing.Pool(jobs) as pool:
        for i, r in enumerate(pool.imap_unordered(analyse, work)):
            res.append(r)
            if (i + 1) % 100 == 0:
                print("  %d done" % (i + 1), flush=True)
    killed = [r for r in res if r[3]]
    survivors = [r for r in res if not r[3]]
    pass_tests = [r for r in survivors if r[5]]
    print("total %d, reported by a property check %d, not reported %d (of which the test-suite still passes: %d)" % (len(res), len(killed), len(survivors), len(pass_tests)))
    with open(out, "w") as f:
        json.dump({"total": len(res), "killed": len(killed), "survivors_passing_tests": [{"file": r[0], "line": r[2], "mutant": r[1], "analysis_error": r[4]} for r in sorted(pass_tests)],
                   "survivors_failing_tests": len(survivors) - len(pass_tests)}, f, indent=1)
    print("survivors that also pass the tests written to", out)


if __name__ == "__main__":
    main()
