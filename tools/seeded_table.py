#!/venv/bin/python
"""Print the README table rows for seeded changes: tools/seeded_table.py <suffix letters, e.g. lmn> [kind labels l=..,m=..,n=..]"""
import json, os, re, sys
VERIF = os.path.dirname(os.path.dirname(os.path.abspath(__file__)))
letters = sys.argv[1]
labels = dict(x.split("=", 1) for x in sys.argv[2:])
sd = os.path.join(VERIF, "seeded")
print("| seeded change | breaks | what it is | caught by (rule of its own property) | also fired |")
print("|---|---|---|---|---|")
for name in sorted(os.listdir(sd)):
    if "-" not in name or name.split("-")[1] not in letters:
        continue
    mp = os.path.join(sd, name, "meta.json")
    if not os.path.exists(mp):
        continue
    m = json.load(open(mp))
    prop = m["property"]
    notes = os.path.join(sd, name, "notes.md")
    head = ""
    if os.path.exists(notes):
        for l in open(notes):
            l = l.strip().lstrip("#").strip()
            if l:
                head = l
                break
    fired = m.get("checks_fired", {})
    rules = []
    for msg in fired.get(prop, []):
        r = re.search(r"(?:\.py(?::\d+)?(?: / \S+)?|\S+\.py) ([A-Za-z&-]+(?:\[[a-z]+\])?):", msg)
        if r and r.group(1) not in rules:
            rules.append(r.group(1))
    own = ", ".join(rules) if rules else ("- (ANALYSIS-ERROR: anchor lost)" if prop in m.get("checks_analysis_error", {}) else "- (not reported by its own property)")
    also = ", ".join(sorted(k for k in fired if k != prop)) or "-"
    lab = labels.get(name.split("-")[1])
    print("| %s | %s | %s%s | %s | %s |" % (name, prop, "(%s) " % lab if lab else "", head.replace("|", "/")[:170], own, also))
