#!/bin/sh
# usage: tools/make_twin.sh <seeded-id> <new-refactoring-id> <file rel to adb_shell> <python-regex> <replacement>
# builds the repaired twin of a seeded defect (patch applied, then one substitution that restores the behaviour) as refactorings/<new-id>/patch.diff
seed=$1; new=$2; file=$3; pat=$4; rep=$5
d=$(mktemp -d /tmp/sa-tw-XXXXXX)
mkdir -p $d/a $d/b
cp -r /repo/adb_shell $d/a/adb_shell; cp -r /repo/adb_shell $d/b/adb_shell
find $d -name __pycache__ -prune -exec rm -rf {} \;
(cd $d/b && patch -p1 -s < /verif/seeded/$seed/patch.diff)
/venv/bin/python - "$d/b/adb_shell/$file" "$pat" "$rep" <<'PY'
import re, sys
p, pat, rep = sys.argv[1:4]
s = open(p).read()
n = len(re.findall(pat, s))
print("substituted %d site(s)" % n)
open(p, "w").write(re.sub(pat, rep, s))
PY
mkdir -p /verif/refactorings/$new
(cd $d && diff -ruN a/adb_shell b/adb_shell > /verif/refactorings/$new/patch.diff)
echo "repaired twin of seeded/$seed: $file: s/$pat/$rep/" > /verif/refactorings/$new/notes.md
rm -rf $d
wc -l /verif/refactorings/$new/patch.diff
